#!/bin/bash
# run.sh <ID> quick|thorough        run a property check against /repo's current working tree
# run.sh <ID> replay <file>         re-execute a recorded violation
# run.sh setup                      pre-build (warms the Go build cache; offline)
# run.sh build <outdir>             build the check binary only
#
# Every invocation regenerates the import-rewrite overlay from /repo and
# rebuilds the check binary, so edits under /repo are always picked up.
set -u
export GOFLAGS=-mod=mod GOPROXY=off GOSUMDB=off GOTOOLCHAIN=local
export CGO_ENABLED=0
HERE="$(cd "$(dirname "$0")" && pwd)"
MC="$HERE/mc"
export VERIF_DIR="$HERE"
# Where evidence and replays are written (default: next to run.sh). Only the mutant/seed
# drivers override it, so that a run against a modified copy does not replace the evidence
# of the unchanged tree.
export VERIF_OUT_DIR="${VERIF_OUT_DIR:-$HERE}"
# The repository the checks are built from. Registered commands never set VERIF_REPO: they
# build from /repo's current working tree. The mutant/seed drivers point it at a scratch
# worktree of /repo with one patch applied.
REPO="${VERIF_REPO:-/repo}"
MODFLAG=""

build() { # $1 = output dir ; builds $1/check ; $2 = mode (base|sched)
  local out="$1" mode="${2:-base}"
  mkdir -p "$out/ov-$mode"
  if [ "$REPO" != /repo ]; then
    sed "s#=> /repo#=> $REPO#" "$MC/go.mod" > "$out/go.mod"; cp "$MC/go.sum" "$out/go.sum"
    MODFLAG="-modfile=$out/go.mod"
  fi
  (cd "$MC" && go run ./cmd/ovgen -repo "$REPO" -out "$out/ov-$mode" -extra "$MC/overlayfiles" -mode "$mode") 2>"$out/ovgen-$mode.log" || {
    echo "INTERNAL: overlay generation failed" >&2; cat "$out/ovgen-$mode.log" >&2; return 2; }
  local tags=""
  [ "$mode" = sched ] && tags="-tags verifsched"
  (cd "$MC" && go build $MODFLAG $tags -overlay "$out/ov-$mode/overlay.json" -o "$out/check-$mode" ./cmd/check) 2>"$out/build-$mode.log" || {
    echo "INTERNAL: build of the check binary against /repo failed (mode $mode); not a property verdict" >&2
    head -50 "$out/build-$mode.log" >&2; return 2; }
  return 0
}

cmd="${1:-}"
case "$cmd" in
  setup)
    T="$(mktemp -d)"; trap 'rm -rf "$T"' EXIT
    build "$T" base || exit 2
    if [ -d "$MC/shim/vio" ]; then
      build "$T" sched || exit 2
      (cd "$MC" && CGO_ENABLED=1 go build -race -o "$T/c19race" ./cmd/c19race) 2>/dev/null || echo "note: -race build unavailable"
    fi
    echo "setup ok"; exit 0 ;;
  build)
    build "$2" "${3:-base}"; exit $? ;;
  "")
    echo "usage: run.sh <ID> quick|thorough | run.sh <ID> replay <file> | run.sh setup" >&2; exit 2 ;;
esac

ID="$1"; ACTION="${2:-quick}"
T="$(mktemp -d)"; trap 'rm -rf "$T"' EXIT
MODE=base
case "$ID" in C19) [ -d "$MC/shim/vio" ] && MODE=sched ;; esac
build "$T" "$MODE" || exit 2
export VERIF_CHECK_BIN="$T/check-$MODE"
if [ "$ID" = C19 ]; then
  # sub-check 3: free-running race-detector build of the same operations (plain build, no shim)
  if (cd "$MC" && CGO_ENABLED=1 go build $MODFLAG -race -o "$T/c19race" ./cmd/c19race) 2>"$T/race-build.log"; then
    export VERIF_RACE_BIN="$T/c19race"
  else
    echo "note: -race build unavailable; C19 sub-check 3 skipped" >&2; head -5 "$T/race-build.log" >&2
  fi
fi
case "$ACTION" in
  quick|thorough) "$T/check-$MODE" "$ID" --tier "$ACTION"; exit $? ;;
  replay) "$T/check-$MODE" "$ID" --replay "$3"; exit $? ;;
  *) echo "unknown action $ACTION" >&2; exit 2 ;;
esac
