#!/bin/bash
# Runs the repository's pinned baseline (56 tests, guard off) in $1 (default /repo)
# and prints the number of passing tests of the stable set; exit 0 iff all 56 pass.
export GOFLAGS=-mod=mod GOPROXY=off GOSUMDB=off GOTOOLCHAIN=local
R="${1:-/repo}"
cd "$R" || exit 2
go test -mod=mod -json -vet=off -count=1 -timeout 25m ./... 2>/dev/null > /tmp/baseline.$$.json
python3 - /tmp/baseline.$$.json <<'PY'
import json,sys
want=set(json.load(open('/root/.vp/BASELINE.json'))['stable_pass'])
got=set()
for l in open(sys.argv[1]):
    try: e=json.loads(l)
    except Exception: continue
    if e.get('Action')=='pass' and e.get('Test'):
        got.add(e['Package']+'::'+e['Test'])
missing=sorted(want-got)
print(f"baseline: {len(want&got)}/{len(want)} stable tests pass")
for m in missing: print("  MISSING/FAILED:",m)
sys.exit(0 if not missing else 1)
PY
rc=$?
rm -f /tmp/baseline.$$.json
exit $rc
