#!/bin/bash
# runall.sh [quick|thorough] [ID...]  run every claimed check on the current tree, summarise
TIER="${1:-quick}"; shift
IDS="$@"
ROOT="$(cd "$(dirname "$0")/.." && pwd)"
[ -z "$IDS" ] && IDS=$(python3 -c "import json; print(' '.join(c['property_id'] for c in json.load(open('$ROOT/MANIFEST.json'))['checks']))")
rc=0
for id in $IDS; do
  out=$("$ROOT/run.sh" $id $TIER 2>&1); r=$?
  echo "$out" | grep -E "^$id tier|^VIOLATION|^KNOWN|INTERNAL" | head -5
  [ $r -ne 0 ] && { echo "  -> exit $r"; rc=1; }
done
exit $rc
