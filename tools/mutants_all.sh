#!/bin/bash
# mutants_all.sh [ID...]  run every patch under /verif/mutants/<ID>/ against check <ID> (quick tier),
# appending one line per mutant to /verif/mutants/RESULTS.tsv:
#   property  mutant  baseline(passing/56)  check-exit  violations
IDS="$@"; [ -z "$IDS" ] && IDS=$(ls /verif/mutants | grep '^C')
for id in $IDS; do
  for m in /verif/mutants/$id/*.patch; do
    [ -f "$m" ] || continue
    out=$(/verif/tools/mutant.sh "$m" $id 2>&1)
    base=$(echo "$out" | grep -o 'baseline: [0-9]*/56' | grep -o '[0-9]*/56')
    ex=$(echo "$out" | grep -o "check $id exit=[0-9]*" | grep -o '[0-9]*$')
    nv=$(echo "$out" | grep -o 'violations=[0-9]*' | head -1 | grep -o '[0-9]*')
    what=$(echo "$out" | grep 'what:' | head -1 | sed 's/^ *what: //' | cut -c1-150)
    echo -e "$id\t$(basename $m .patch)\t${base:-?}\t${ex:-?}\t${nv:-?}\t$what" | tee -a /verif/mutants/RESULTS.tsv
  done
done
