#!/usr/bin/env python3
"""Generates /verif/MANIFEST.json from the table below (one place to edit)."""
import json, sys

ALL = ["C%02d" % i for i in range(1, 20)]

# id -> (category, engine, technique, level text, level note, design ref)
CHECKS = {
 "C07": ("exploration", "E-shape",
   "bounded exhaustive enumeration of every well-formed signature-list stream (<=3 lists, <=2 entries, all orders) against a reference codec",
   "Every stream of the bounded language is decoded and re-encoded by the real library and compared field by field / byte for byte with an independent from-the-spec codec; exhaustive within the stated bound (list count, entry count, data-length alphabet).",
   "Small-scope hypothesis for more lists/entries and other certificate sizes; reference codec refesl trusted (cross-checked on the repository's captures).", "DESIGN.md section 4 C07"),
 "C08": ("exploration", "E-shape+E-box",
   "bounded exhaustive enumeration of malformed neighbours (all truncations, size-field boundary values and pairs, bad types, garbage) of every small well-formed stream; sandboxed workers",
   "Every derived input is decoded by the real library in a memory-limited worker; nil error is only allowed when the reference decoder accepts the whole input and agrees on the lists. Exhaustive over seeds x deviation alphabet with deviation bound 2.",
   "Inputs needing three coordinated field changes, or field values outside the boundary alphabet, are not explored; reference decoder trusted.", "DESIGN.md section 4 C08"),
 "C10": ("exploration", "E-shape",
   "bounded exhaustive product of descriptor fields (timestamp x certificate-data length x type GUID x payload) against a reference reader/writer, plus library-constructed values and shipped .auth files",
   "Every descriptor of the product is decoded by the real library from a stream that continues with a payload; consumed length, each field, encode(decode) and decode(encode) are compared with an independent from-the-spec implementation. Exhaustive over the stated alphabets.",
   "Certificate-data lengths outside the boundary alphabet are covered by the small-scope argument (the code has no length-dependent branch besides dwLength arithmetic); refauth trusted.", "DESIGN.md section 4 C10"),
 "C17": ("exploration", "E-shape",
   "bounded exhaustive enumeration of structured GUID families (per-byte x 256 values, per-field exhaustive, 2^16 bit patterns, all pairs of 600) and of strings (length<=3 over 12 boundary code points, every BMP scalar) against independent formatters",
   "All conversions are run on the real library for every value of the families and compared with an independent formatter / unicode/utf16; wire layout is checked in both directions through the structure encoders. Exhaustive over the families, which cover every single-byte and single-field local pattern.",
   "Not all 2^128 GUIDs: width/padding/byte-order defects are local to a byte or field, which the families enumerate completely; combinations of defects across fields are not.", "DESIGN.md section 4 C17"),
 "C18": ("exploration", "E-shape",
   "exhaustive enumeration of all 65536 boot numbers and all short boot-order lists through the real in-memory store (composition of GetBootOrder and GetBootEntry); bounded exhaustive node sequences (<=3 nodes over 7 kinds) from an independent device-path encoder",
   "Every boot number is resolved end-to-end through the real accessors; every load option of the bounded language is decoded by the real library and compared field by field, HD/File text forms parsed and compared by value. Exhaustive for boot numbers; bounded (node count, field-value alphabets) for load options.",
   "Node sequences longer than 3 and field values outside the alphabets rely on the small-scope hypothesis; dpgen encoder trusted.", "DESIGN.md section 4 C18"),
 "C11": ("exploration", "E-shape",
   "bounded exhaustive product (6 write APIs x directories x variable definitions incl. all 256 attribute masks x values; stored mask x required mask 256x256 x file shapes) with the call trace recorded at the afero.Fs boundary and checked by a protocol automaton",
   "Every write of the product is executed on the real library over a recording filesystem and its exact call trace (path, open flags, number and content of writes, no other mutating call) is checked; every read combination is executed with a spy decoder. Exhaustive over the stated product.",
   "Trace semantics are those of afero's MemMapFs; names/GUIDs/values outside the alphabets rely on the absence of value-dependent branches.", "DESIGN.md section 4 C11"),
 "C09": ("model_checking", "E-seq",
   "explicit-state breadth-first search over operation sequences on the real SignatureDatabase (replay on fresh instances, full-structure state hashing), step oracle = ordered-entry view, invariants evaluated in every state",
   "All operation sequences up to the depth bound from 3 initial states are executed on the real object; each step is judged against the abstract ordered-entry view derived from the object before/after, and every reached state is checked for query agreement, duplicate-freedom, size equations, reference-decodability and decode(encode) identity. Exhaustive up to the stated depth over the stated alphabet.",
   "Depth bound (3 quick / 5 thorough) and finite universe of types/owners/data values; no abstraction in the state key, so deduplication is exact.", "DESIGN.md section 4 C09"),
 "C12": ("model_checking", "E-seq",
   "explicit-state search to the fixpoint over write histories on the real in-memory store (state = full store content, exact deduplication), register reference model compared on every read in every state",
   "All histories of plain and signed writes over the variable/value alphabet are explored on the real testfs store until no new store content is reachable (or the depth bound); in every state every variable is read back through the raw and typed accessors and compared with a last-write register model. Exhaustive: the search reaches its fixpoint.",
   "Finite value alphabet (4 sizes per variable incl. empty) and 3 (quick) / 5 (thorough) variables; signatures memoised (deterministic PKCS#1 v1.5) under a frozen clock.", "DESIGN.md section 4 C12"),
 "C01": ("exploration", "E-shape",
   "bounded exhaustive enumeration of PE layouts (format x e_lfanew x <=3 sections in every file order x raw size x gaps x header slack x trailing length 0..9 x certificate table) and, per layout, of every byte position (flip), differential against a from-the-specification digest; exhaustive (offset,length) check of the positional reader",
   "Every layout of the product and every single-byte mutant of it is parsed and hashed by the real library and compared with an independent implementation of the Microsoft algorithm on raw bytes; this decides both digest equality and exactly which bytes are covered/excluded. Exhaustive within the stated layout bound.",
   "Small-scope hypothesis beyond 3 sections / 9 trailing bytes / the size alphabet; refpe trusted (it reproduces the digests pinned in the repository's tests, checked in the fixtures unit); mutants the reference calls ill-formed are out of the property's domain and skipped.", "DESIGN.md section 4 C01"),
 "C04": ("exploration", "E-shape",
   "bounded exhaustive derivation of adversarial blobs from valid signatures of three producers (every byte position x every bit / every value; a catalogue of structural DER edits) x 3 verifying certificates x 3 entry points, one-directional differential against a from-the-RFC verifier",
   "Every derived blob is verified by the real library through each entry point against the right certificate, a foreign one and one with the same issuer+serial but another key; success is only allowed when an independent verifier confirms the three conditions of the statement; any panic is a violation. Exhaustive over the derivation families.",
   "Soundness is relative to the enumerated families (single-byte rewrites and the edit catalogue), not all forgeries; RSA/SHA-256 and refp7 trusted; OpenSSL seeds are produced at check time (signing time varies, structure does not).", "DESIGN.md section 4 C04"),
 "C02": ("exploration", "E-shape",
   "bounded exhaustive derivation of adversarial signed images (every byte position of the signed file, all cross-image transplants, structural rewrites of the embedded blob incl. digest forgeries, substitute keys) x 3 verifying certificates, one-directional differential against independent PE and PKCS#7 readers",
   "Every derived file is parsed and verified by the real library against the right certificate, a foreign one and one with the same issuer+serial but another key; success is only allowed when an independent reader finds a signature valid for that certificate committing to the specification digest of exactly these bytes. Exhaustive over the derivation families.",
   "Soundness relative to the enumerated forgery families; RSA/SHA-256, refpe and refp7 trusted; panics are counted here and judged under C13.", "DESIGN.md section 4 C02"),
 "C03": ("model_checking", "E-seq",
   "explicit-state search over signing histories (Sign with 3 key sizes, re-sign, serialise/re-parse) on the real image object from 11 initial images, state = output bytes + in-place signature count, invariants checked by an independent reader in every state",
   "All histories up to the depth bound are executed on the real object; in every reached state the serialised file is inspected byte-wise by an independent reader (preserved prefix, padding, alignment, directory entry, dwLength, revision/type, embedded digest = digest of the file itself) and the library's own Hash/Verify/Signatures views are compared with the signing history. Exhaustive up to the depth bound.",
   "Depth 3 (quick) / 6 (thorough); three key sizes; frozen clock; refpe/refp7 trusted.", "DESIGN.md section 4 C03"),
 "C05": ("exploration", "E-shape",
   "bounded exhaustive product (content length x content type x key size x issuer form x serial form) of library-produced SignedData, each judged by three independent verifiers (from-the-RFC refp7, go.mozilla.org/pkcs7, openssl CLI) with accept/reject content pairs",
   "Every blob of the product is produced by the real signer and must be accepted with its content and rejected with changed/longer content by independent implementations that share no code with the library; field-level conditions of the statement are checked on an independent parse. Exhaustive over the stated alphabets.",
   "Alphabet boundaries (DER length forms, SHA-256 block sizes, high-bit/long serials, long and multi-valued issuers); OID arcs limited to 2^31-1 because encoding/asn1-based verifiers cannot read larger ones; openssl only for the data content type.", "DESIGN.md section 4 C05"),
 "C06": ("exploration", "E-shape + controlled clock",
   "bounded exhaustive product (names x payloads x attribute masks incl. all 256 x GUIDs x keys; clock instants x time zones injected through the vtime shim) with a layout oracle and positive/negative detached verification over the exact signed buffer",
   "Every update of the product is produced by the real SignEFIVariable under a harness-decided clock and zone, decoded by an independent reader and verified by an independent PKCS#7 verifier over the rebuilt buffer; 16 near-miss buffers (each component changed, reordered, dropped, terminator added) must all be rejected. Exhaustive over the stated alphabets.",
   "ASCII names only (statement's domain); time zone configuration is modelled by the Location of the injected instant, not by the process TZ variable.", "DESIGN.md section 4 C06"),
 "C16": ("exploration", "E-shape over producer configurations",
   "full product of OpenSSL producer configurations (smime/cms x smimecap x detached x certs x cades x content x key x certificate) generated at check time plus all shipped third-party artefacts; parse + verify matrix + byte-exact attribute re-encoding oracle",
   "Every configuration's output is parsed and verified by the real library against the signer's, a foreign and a same-issuer+serial-other-key certificate, and the parsed attributes are re-encoded and compared byte for byte with the signed bytes cut out of the blob by an independent walker. Exhaustive over the configuration product.",
   "OpenSSL as installed is the only live producer (sbsign/sbvarsign only as shipped fixtures; osslsigncode/pesign not installed).", "DESIGN.md section 4 C16"),
 "C15": ("fault_enumeration", "E-fault",
   "deviation-bounded exhaustive fault enumeration: the dependency-call sequence of each operation is recorded, then every single call, every pair of calls (bound 2) and every persistent suffix is made to fail with every applicable fault kind at the caller-supplied seams (crypto.Signer, afero.Fs, io.ReaderAt/io.Reader)",
   "For 13 operations every position of the recorded dependency-call sequence is failed in turn (all fault kinds), then all pairs and all persistent suffixes; each run's outcome class, returned value, object state and filesystem trace are compared with the fault-free run. Exhaustive for deviation bounds 1 and 2 over the sequences the operations issue.",
   "Faults only at caller-supplied seams; transient reader faults may be survived with the correct value (debug/pe swallows some read errors), persistent ones may not; short reads are legal io.Reader behaviour and must not change the value.", "DESIGN.md section 4 C15"),
 "C13": ("exploration", "E-shape + E-box",
   "deviation-bounded exhaustive enumeration of malformed images and signature blobs (every header field x boundary alphabet, all field pairs, all truncations, C04 derivation set, all short strings) executed through the whole read-only API in sandboxed workers with outcome classification",
   "Every input of the bounded neighbourhoods is driven through Parse/Signatures/Hash/Bytes/Open/Verify (images) and the three blob entry points inside memory-limited worker processes; only 'returned a value or error' is accepted; panic, exit (log shim), OOM death, hang (watchdog) and input-unrelated allocation are violations attributed to the exact input. Exhaustive for deviation bound 2 over the listed fields and alphabets.",
   "Not all byte strings: inputs needing three coordinated field changes are not explored; proportionality is decided by generous fixed thresholds (64 MiB + 64 x input) and a liveness watchdog, not by a complexity measurement.", "DESIGN.md section 4 C13"),
 "C14": ("exploration", "E-shape + E-box + static site scan",
   "per-decoder bounded exhaustive enumeration (all truncations of seeds, length/size/type fields x boundary alphabet and pairs, full 256x256 device-path (type, sub-type) sweep, all short strings over small alphabets, single-byte rewrites of small seeds) in sandboxed workers; AST scan of all termination call sites against a committed baseline",
   "Every decoder entry point the statement lists is executed on every input of its bounded neighbourhood (including Format() of every returned device-path node and the in-memory store's descriptor probe); only 'returned' is accepted. The static scan enumerates all log.Fatal/os.Exit/panic/BytesOrPanic call sites of the library packages in the current tree; new sites are reported as coverage goals.",
   "Same limits as C13; the static part over-approximates (remaining 9 sites are encoders writing to in-memory buffers) and is never an alarm by itself.", "DESIGN.md section 4 C14"),
 "C19": ("model_checking", "E-seq + E-sched (+ free-running -race pass)",
   "stateless model checking of the real code: cooperative scheduler with scheduling points at every access to a shared io/bytes cursor or buffer object and at every sync lock / Once / WaitGroup operation (import-rewritten build; blocked goroutines are parked, a state with only parked goroutines is a deadlock), iterative preemption-bounded DFS over all 2- and 3-thread harnesses of read-only operations; exhaustive sequential repetition (all sequences <= 4, every operation 64 times) with a reflection-based deep state dump, and modifying operations after every read-only prefix of length <= 2; separate free-running race-detector build",
   "Every multiset of read-only operations (2 threads x 1-2 operations, 3 threads x 1 operation) on one shared parsed image / database / signed-update value is executed under every schedule within the preemption bound on fresh real objects, and every result is compared with the sequential reference; all operation sequences up to length 4 are run with every result compared with the fresh-object result and the object's complete private state (cursors included) dumped before and after each call (a change of exported fields, or private state that changes again when the call is repeated, is a violation; a one-time private fill such as a memo is not); after every read-only prefix a modifying call and all read-only calls must give what they give on an object never looked at; a 16-goroutine -race build of the same bodies is a separate non-exhaustive confirmation.",
   "Scheduling granularity is the shimmed io.SectionReader / bytes.Buffer / bytes.Reader and sync operations (sync/atomic operations are not scheduling points); races on plain fields are only visible to the -race pass and the state dump; preemption bound 2 (2 threads) / 1 (3 threads) quick, 3 / 2 thorough, execution cap per harness reported when hit.", "DESIGN.md section 4 C19"),
}

NOT_YET = "check not built yet in this round (planned, see DESIGN.md section 4); no claim is made"

def main():
    checks = []
    for pid in ALL:
        if pid not in CHECKS:
            continue
        cat, eng, tech, text, note, ref = CHECKS[pid]
        checks.append({
            "property_id": pid,
            "quick_cmd": f"./run.sh {pid} quick",
            "thorough_cmd": f"./run.sh {pid} thorough",
            "evidence_file": f"/verif/evidence/{pid}.json",
            "replay_cmd_template": f"./run.sh {pid} replay {{path}}",
            "engine": eng,
            "level_claimed": {"category": cat, "text": text, "design_ref": ref},
            "level_note": note,
            "technique": tech,
        })
    na = [{"property_id": p, "reason": NOT_YET} for p in ALL if p not in CHECKS]
    m = {
        "version": 1,
        "setup_cmd": "./run.sh setup",
        "hooks": {
            "guard": "verif",
            "enable": "no source hooks: checks build /repo through `go build -overlay` generated at check time by mc/cmd/ovgen (import redirect log->vlog, time->vtime, and io/bytes for the scheduler build); build tag `verif` is reserved",
            "baseline_off_cmd": "/verif/tools/baseline.sh /repo",
            "source_commits": [],
            "add_only": True,
        },
        "engines": [
            {"name": "hx", "path": "mc/internal/hx", "serves_properties": sorted(CHECKS), "kind_free_text": "unit-sharded bounded enumeration in sandboxed worker processes (ulimit -v, liveness watchdog, death attribution), violation confirmation by re-execution, evidence writer"},
            {"name": "ovgen", "path": "mc/cmd/ovgen", "serves_properties": sorted(CHECKS), "kind_free_text": "import-rewrite overlay generator (log.Fatal/os.Exit become observable outcomes; controllable clock; io/bytes redirected to instrumented wrappers for the scheduler build)"},
            {"name": "E-seq", "path": "mc/props/c09.go mc/props/c12.go mc/props/c03.go", "serves_properties": ["C03", "C09", "C12", "C19"], "kind_free_text": "explicit-state breadth-first search over operation sequences on the real objects (replay on fresh instances, exact state deduplication)"},
            {"name": "E-sched", "path": "mc/props/c19.go mc/shim/sched mc/shim/vio mc/shim/vbytes mc/shim/vsync", "serves_properties": ["C19"], "kind_free_text": "cooperative scheduler + iterative preemption-bounded stateless DFS (CHESS style) over goroutines running real library calls"},
            {"name": "E-fault", "path": "mc/props/c15.go mc/internal/recfs", "serves_properties": ["C15", "C11"], "kind_free_text": "deviation-bounded fault enumeration at caller-supplied seams; recording filesystem"},
        ],
        "checks": checks,
        "not_applicable": na,
        "notes": "All checks execute the real library built from /repo's working tree; technique family: bounded exhaustive exploration (explicit-state / deviation-bounded enumeration). In every unit of every check the library's package-level variables (registered by a file the overlay adds to each package) are dumped before and after the unit; a difference is reported as a violation of that check's property. See DESIGN.md.",
    }
    json.dump(m, open("/verif/MANIFEST.json", "w"), indent=1)
    print("MANIFEST.json written:", len(checks), "checks,", len(na), "not claimed")

main()
