#!/bin/bash
# seed_verify.sh <srcdir with patch.diff, demo test, demo_path.txt, notes.md> <seed-id e.g. C01-1> <check IDs...>
# Confirms an independently written property-breaking change (applies, existing tests pass, demo fails with
# it and passes without it) in a scratch worktree, runs the given checks against it (via mutant.sh on /repo,
# undone afterwards), and stores everything under /verif/seeded/<seed-id>/ with meta.json.
SRC="$1"; SID="$2"; shift 2; IDS="$@"
export GOFLAGS=-mod=mod GOPROXY=off GOSUMDB=off GOTOOLCHAIN=local
DST=/verif/seeded/$SID; mkdir -p $DST
cp "$SRC/patch.diff" $DST/patch.diff; cp "$SRC/notes.md" $DST/notes.md 2>/dev/null
DEMO=$(ls "$SRC"/*_test.go | head -1); DPATH=$(cat "$SRC/demo_path.txt" | tr -d ' \n')
cp "$DEMO" $DST/$(basename "$DEMO")
W=$(mktemp -d /tmp/sv-XXXX); rmdir $W
git -C /repo worktree add -q --detach $W HEAD || exit 2
trap 'git -C /repo worktree remove --force '"$W"' 2>/dev/null' EXIT
cd $W
applies=no; tests=?; demo_with=?; demo_without=?
if git apply "$DST/patch.diff" 2>/dev/null; then applies=yes; fi
if [ $applies = yes ]; then
  tests=$(/verif/tools/baseline.sh $W | head -1 | grep -o '[0-9]*/56')
  cp "$DEMO" "$W/$DPATH"
  pkg=./$(dirname "$DPATH")
  if go test -vet=off -count=1 -run 'Demo|ZZ' $pkg >/tmp/sv-with.log 2>&1; then demo_with=pass; else demo_with=fail; fi
  git checkout -q -- . 
  if go test -vet=off -count=1 -run 'Demo|ZZ' $pkg >/tmp/sv-without.log 2>&1; then demo_without=pass; else demo_without=fail; fi
fi
cd /verif
res=""
det="[]"
if [ $applies = yes ] && [ -n "$IDS" ]; then
  out=$(SKIP_BASELINE=1 /verif/tools/mutant.sh $DST/patch.diff $IDS 2>&1)
  res=$(echo "$out" | grep -o 'check C[0-9]* exit=[0-9]* violations=[0-9]*' | tr '\n' ';')
  what=$(echo "$out" | grep 'what:' | head -3 | sed 's/^ *what: //' | cut -c1-160 | tr '\n' '|')
fi
python3 - "$SID" "$applies" "$tests" "$demo_with" "$demo_without" "$res" "$what" "$DPATH" <<'PY'
import json,sys
sid,applies,tests,dw,dwo,res,what,dpath=sys.argv[1:9]
meta={"seed":sid,"breaks_property":sid.split('-')[0],"patch_applies":applies,"existing_tests_with_change":tests,
 "demo_path":dpath,"demo_with_change":dw,"demo_without_change":dwo,"checks_run":res,"first_violations":what,
 "written_by":"independent sub-agent given only the property text and a scratch worktree",
 "what_it_needs":"see notes.md"}
json.dump(meta,open(f"/verif/seeded/{sid}/meta.json","w"),indent=1)
print(f"SEED {sid}: applies={applies} tests={tests} demo_with={dw} demo_without={dwo} | {res} | {what[:200]}")
PY
