#!/bin/bash
# benign_verify.sh <srcdir with patch.diff, notes.md> <name e.g. E-1>
# Stores an independently written BEHAVIOUR-PRESERVING change under /verif/benign/<name>/ and runs the
# 56-test baseline and the quick tier of ALL checks against a scratch worktree with the change applied.
# Expectation: every check exits 0. Any VIOLATION is to be classified by hand (agent's mistake = the
# change does break a property; or a false alarm of the machinery = to be corrected).
SRC="$1"; NAME="$2"
DST=/verif/benign/$NAME; mkdir -p $DST
cp "$SRC/patch.diff" $DST/patch.diff; cp "$SRC/notes.md" $DST/notes.md 2>/dev/null
IDS="C01 C02 C03 C04 C05 C06 C07 C08 C09 C10 C11 C12 C13 C14 C15 C16 C17 C18 C19"
out=$(/verif/tools/mutant.sh $DST/patch.diff $IDS 2>&1)
echo "$out" > $DST/run.log
python3 - "$NAME" "$DST" <<'PY'
import json,re,sys
name,dst=sys.argv[1:3]
log=open(dst+'/run.log').read()
base=re.search(r'(\d+/56)',log)
res={m.group(1):int(m.group(2)) for m in re.finditer(r'check (C\d+) exit=(\d+)',log)}
alarms=[k for k,v in res.items() if v!=0]
whats=re.findall(r'what: (.*)',log)[:6]
meta={"name":name,"kind":"behaviour-preserving change by an independent sub-agent","baseline":base.group(1) if base else "?",
 "checks_exit":res,"alarms":alarms,"first_alarm_texts":whats}
json.dump(meta,open(dst+'/meta.json','w'),indent=1)
print(f"BENIGN {name}: baseline={meta['baseline']} alarms={alarms} {whats[:2]}")
PY
