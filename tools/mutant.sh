#!/bin/bash
# mutant.sh <patch> <ID> [<ID>...]   apply a property-breaking patch to /repo, run the baseline and the
# given checks (quick), and undo the patch. Prints one summary line per check.
# env: TIER=quick|thorough  SKIP_BASELINE=1
P="$1"; shift
cd /repo || exit 2
if ! git diff --quiet; then echo "repo has uncommitted changes" >&2; exit 2; fi
git apply "$P" || { echo "patch does not apply: $P" >&2; exit 2; }
# keep the evidence of the unchanged tree: checks run against a mutant must not replace it
EVB=$(mktemp -d); cp -a /verif/evidence/. "$EVB"/ 2>/dev/null
trap 'git -C /repo checkout -- . ; git -C /repo clean -fdq; rm -rf /verif/evidence; mkdir -p /verif/evidence; cp -a "$EVB"/. /verif/evidence/; rm -rf "$EVB"' EXIT
export GOFLAGS=-mod=mod GOPROXY=off GOSUMDB=off GOTOOLCHAIN=local
if ! go build ./... 2>/tmp/mut-build.log; then echo "MUTANT $(basename $P): does not compile"; head -5 /tmp/mut-build.log; exit 3; fi
if [ -z "${SKIP_BASELINE:-}" ]; then
  b=$(/verif/tools/baseline.sh /repo | head -1)
  echo "MUTANT $(basename $P): $b"
fi
for id in "$@"; do
  out=$(/verif/run.sh "$id" "${TIER:-quick}" 2>&1); rc=$?
  nv=$(echo "$out" | grep -c '^VIOLATION')
  echo "MUTANT $(basename $P): check $id exit=$rc violations=$nv"
  echo "$out" | grep -A1 '^VIOLATION' | grep 'what:' | head -4
done
