#!/bin/bash
# mutant.sh <patch> <ID> [<ID>...]   apply a property-breaking patch to a scratch worktree of /repo
# (git worktree of HEAD, outside /repo and /verif), run the 56-test baseline and the given checks
# (quick) against that copy, and remove the worktree. /repo itself and /verif/evidence are not touched.
# env: TIER=quick|thorough  SKIP_BASELINE=1
P="$(readlink -f "$1")"; shift
export GOFLAGS=-mod=mod GOPROXY=off GOSUMDB=off GOTOOLCHAIN=local
W=$(mktemp -d /tmp/mut-XXXXXX); rmdir "$W"
OUT=$(mktemp -d /tmp/mutout-XXXXXX)
git -C /repo worktree add -q --detach "$W" HEAD || exit 2
trap 'git -C /repo worktree remove --force "$W" 2>/dev/null; rm -rf "$OUT"' EXIT
( cd "$W" && git apply "$P" ) || { echo "patch does not apply: $P" >&2; exit 2; }
if ! ( cd "$W" && go build ./... ) 2>"$OUT/build.log"; then echo "MUTANT $(basename $P): does not compile"; head -5 "$OUT/build.log"; exit 3; fi
if [ -z "${SKIP_BASELINE:-}" ]; then
  b=$(/verif/tools/baseline.sh "$W" | head -1)
  echo "MUTANT $(basename $P): $b"
fi
for id in "$@"; do
  out=$(VERIF_REPO="$W" VERIF_OUT_DIR="$OUT" /verif/run.sh "$id" "${TIER:-quick}" 2>&1); rc=$?
  nv=$(echo "$out" | grep -c '^VIOLATION')
  echo "MUTANT $(basename $P): check $id exit=$rc violations=$nv"
  echo "$out" | grep -A1 '^VIOLATION' | grep 'what:' | head -4
  [ $rc -eq 2 ] && echo "$out" | grep -i internal | head -3
  if [ -n "${DETAIL:-}" ]; then for f in $(ls "$OUT"/replays/$id-*.json 2>/dev/null | head -${DETAIL}); do python3 -c "import json,sys;d=json.load(open('$f'));print(json.dumps(d.get('detail'))[:700])"; done; fi
done
