package keys

import (
	"crypto"
	"crypto/ecdsa"
	"crypto/ed25519"
	"crypto/elliptic"
	"crypto/rand"
	"crypto/x509"
	"crypto/x509/pkix"
	"encoding/pem"
	"math/big"
)

// Kind describes how a signer certificate for one of the RSA keys came into being. None of this
// changes what a PKCS#7 verifier has to do with the certificate (RSA key, issuer, serial), which
// is why every kind belongs to the certificate alphabet.
type Kind struct {
	Name   string
	SigAlg x509.SignatureAlgorithm // algorithm the certificate itself is signed with
	Parent string                  // "" self-signed, "rsa", "ecdsa", "ed25519": kind of the issuing CA
}

func Kinds() []Kind {
	return []Kind{
		{"self-signed, SHA256WithRSA", x509.SHA256WithRSA, ""},
		{"issued by an RSA CA", x509.SHA256WithRSA, "rsa"},
		{"self-signed, SHA384WithRSA", x509.SHA384WithRSA, ""},
		{"self-signed, SHA512WithRSA", x509.SHA512WithRSA, ""},
		{"self-signed, RSASSA-PSS", x509.SHA256WithRSAPSS, ""},
		{"issued by an RSA CA with SHA384WithRSA", x509.SHA384WithRSA, "rsa"},
		{"issued by an ECDSA P-256 CA", x509.ECDSAWithSHA256, "ecdsa"},
		{"issued by an Ed25519 CA", x509.PureEd25519, "ed25519"},
	}
}

func altCA(kind string) (*x509.Certificate, crypto.Signer) {
	var signer crypto.Signer
	var alg x509.SignatureAlgorithm
	switch kind {
	case "ecdsa":
		d := new(big.Int).SetBytes([]byte("verif fixed ecdsa ca key 0123456"))
		k := &ecdsa.PrivateKey{D: d}
		k.Curve = elliptic.P256()
		k.X, k.Y = elliptic.P256().ScalarBaseMult(d.Bytes())
		signer, alg = k, x509.ECDSAWithSHA256
	case "ed25519":
		signer, alg = ed25519.NewKeyFromSeed([]byte("verif fixed ed25519 ca seed 0123")), x509.PureEd25519
	default:
		panic(kind)
	}
	if c, ok := certCache.Load("altca-" + kind); ok {
		return c.(*x509.Certificate), signer
	}
	tmpl := &x509.Certificate{SerialNumber: big.NewInt(0x7301), Subject: pkix.Name{CommonName: "verif " + kind + " CA", Country: []string{"NO"}},
		NotBefore: NotBefore, NotAfter: NotAfter, IsCA: true, BasicConstraintsValid: true, KeyUsage: x509.KeyUsageCertSign, SignatureAlgorithm: alg}
	der, err := x509.CreateCertificate(rand.Reader, tmpl, tmpl, signer.Public(), signer)
	if err != nil {
		panic(err)
	}
	c, _ := x509.ParseCertificate(der)
	certCache.Store("altca-"+kind, c)
	return c, signer
}

// CertOfKind makes a certificate for RSA key k. rawSubject (optional) is the DER Name to use as
// subject; for self-signed kinds it is the issuer as well.
func CertOfKind(k int, kind Kind, rawSubject []byte, subject pkix.Name, serial *big.Int) (*x509.Certificate, error) {
	tmpl := &x509.Certificate{SerialNumber: serial, RawSubject: rawSubject, Subject: subject, NotBefore: NotBefore, NotAfter: NotAfter,
		SignatureAlgorithm: kind.SigAlg, KeyUsage: x509.KeyUsageDigitalSignature, ExtKeyUsage: []x509.ExtKeyUsage{x509.ExtKeyUsageCodeSigning}, BasicConstraintsValid: true}
	parent, signer := tmpl, crypto.Signer(K(k))
	switch kind.Parent {
	case "rsa":
		parent, signer = CA(), K(2)
	case "ecdsa", "ed25519":
		parent, signer = altCA(kind.Parent)
	}
	d, err := x509.CreateCertificate(rand.Reader, tmpl, parent, &K(k).PublicKey, signer)
	if err != nil {
		return nil, err
	}
	return x509.ParseCertificate(d)
}

// ECSigner returns a PKCS#8 PEM key and a self-signed PEM certificate of an ECDSA P-256 signer
// (for messages co-signed by a second, non-RSA signer).
func ECSigner() (keyPEM, certPEM []byte) {
	_, signer := altCA("ecdsa")
	k := signer.(*ecdsa.PrivateKey)
	der, err := x509.MarshalPKCS8PrivateKey(k)
	if err != nil {
		panic(err)
	}
	tmpl := &x509.Certificate{SerialNumber: big.NewInt(0x7501), Subject: pkix.Name{CommonName: "verif ec co-signer"}, NotBefore: NotBefore, NotAfter: NotAfter,
		KeyUsage: x509.KeyUsageDigitalSignature, BasicConstraintsValid: true, SignatureAlgorithm: x509.ECDSAWithSHA256}
	cd, err := x509.CreateCertificate(rand.Reader, tmpl, tmpl, &k.PublicKey, k)
	if err != nil {
		panic(err)
	}
	return pem.EncodeToMemory(&pem.Block{Type: "PRIVATE KEY", Bytes: der}), pem.EncodeToMemory(&pem.Block{Type: "CERTIFICATE", Bytes: cd})
}

// Variety returns one certificate of every kind for RSA key k (cached).
func Variety(k int) []*x509.Certificate {
	key := "variety" + string(rune('0'+k))
	if c, ok := certCache.Load(key); ok {
		return c.([]*x509.Certificate)
	}
	var out []*x509.Certificate
	for i, kd := range Kinds() {
		c, err := CertOfKind(k, kd, nil, pkix.Name{CommonName: "verif variety " + kd.Name, Organization: []string{"verif"}}, big.NewInt(int64(0x7400+16*k+i)))
		if err != nil {
			panic(err)
		}
		out = append(out, c)
	}
	certCache.Store(key, out)
	return out
}
