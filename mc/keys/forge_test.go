package keys

import (
	"crypto/sha256"
	"testing"
)

func TestForge(t *testing.T) {
	for i := 0; i < 4; i++ {
		d := sha256.Sum256([]byte{byte(i)})
		f := ForgeE3(&K(7).PublicKey, d[:])
		t.Log(i, d[31]&1, len(f))
		if len(f) < 4 || d[31]&1 == 1 && len(f) < 5 {
			t.Fatalf("forgeries: %d", len(f))
		}
	}
	if C(7).PublicKey == nil {
		t.Fatal()
	}
}
