// Package keys provides the fixed RSA test keys (generated once with
// `openssl genpkey`, committed) and deterministic certificates built from them.
// Nothing here is random: RSA PKCS#1 v1.5 signing is deterministic, validity
// dates are constants.
package keys

import (
	"crypto/rand"
	"crypto/rsa"
	"crypto/x509"
	"crypto/x509/pkix"
	_ "embed"
	"encoding/pem"
	"math/big"
	"sync"
	"time"
)

//go:embed k1.key
var k1pem []byte

//go:embed k2.key
var k2pem []byte

//go:embed k3.key
var k3pem []byte

//go:embed k4.key
var k4pem []byte

// k5 (2050 bits) and k6 (2047 bits): moduli whose length is not a multiple of eight bits
//
//go:embed k5.key
var k5pem []byte

//go:embed k6.key
var k6pem []byte

// k7: RSA-2048 with public exponent 3 (old vendor keys; the exponent for which a verifier that
// parses the PKCS#1 block instead of comparing it can be forged against without the private key)
//
//go:embed k7.key
var k7pem []byte

func parse(b []byte) *rsa.PrivateKey {
	blk, _ := pem.Decode(b)
	k, err := x509.ParsePKCS8PrivateKey(blk.Bytes)
	if err != nil {
		panic(err)
	}
	return k.(*rsa.PrivateKey)
}

var (
	once           sync.Once
	k1, k2, k3, k4 *rsa.PrivateKey
	k5, k6, k7     *rsa.PrivateKey
)

func load() {
	once.Do(func() {
		k1, k2, k3, k4 = parse(k1pem), parse(k2pem), parse(k3pem), parse(k4pem)
		k5, k6, k7 = parse(k5pem), parse(k6pem), parse(k7pem)
	})
}

// K returns key n: 1,2 = RSA-2048, 3 = RSA-3072, 4 = RSA-4096, 5 = RSA-2050, 6 = RSA-2047, 7 = RSA-2048 with e=3.
func K(n int) *rsa.PrivateKey {
	load()
	return []*rsa.PrivateKey{nil, k1, k2, k3, k4, k5, k6, k7}[n]
}

func PEM(n int) []byte { return [][]byte{nil, k1pem, k2pem, k3pem, k4pem, k5pem, k6pem, k7pem}[n] }

var (
	NotBefore = time.Date(2020, 1, 1, 0, 0, 0, 0, time.UTC)
	NotAfter  = time.Date(2099, 1, 1, 0, 0, 0, 0, time.UTC)
)

// Cert builds a self-issued certificate with the given subject/issuer name and
// serial whose public key is pub, signed by signKey (self-signed when the two
// match). The result is deterministic.
func Cert(name pkix.Name, serial *big.Int, pub *rsa.PublicKey, signKey *rsa.PrivateKey) *x509.Certificate {
	tmpl := &x509.Certificate{
		SerialNumber: serial, Subject: name, Issuer: name,
		NotBefore: NotBefore, NotAfter: NotAfter,
		KeyUsage:              x509.KeyUsageDigitalSignature,
		ExtKeyUsage:           []x509.ExtKeyUsage{x509.ExtKeyUsageCodeSigning},
		BasicConstraintsValid: true,
		SignatureAlgorithm:    x509.SHA256WithRSA,
	}
	der, err := x509.CreateCertificate(rand.Reader, tmpl, tmpl, pub, signKey)
	if err != nil {
		panic(err)
	}
	c, err := x509.ParseCertificate(der)
	if err != nil {
		panic(err)
	}
	return c
}

var certCache sync.Map

// C returns the standard certificate of key n: CN=verif-k<n>, serial 0x1000+n.
func C(n int) *x509.Certificate {
	if c, ok := certCache.Load(n); ok {
		return c.(*x509.Certificate)
	}
	c := Cert(pkix.Name{CommonName: "verif-k" + string(rune('0'+n)), Organization: []string{"verif"}}, big.NewInt(int64(0x1000+n)), &K(n).PublicKey, K(n))
	certCache.Store(n, c)
	return c
}

// C1Prime has the issuer and serial of C(1) but the public key of K(2).
func C1Prime() *x509.Certificate {
	if c, ok := certCache.Load("c1p"); ok {
		return c.(*x509.Certificate)
	}
	c := Cert(pkix.Name{CommonName: "verif-k1", Organization: []string{"verif"}}, big.NewInt(0x1001), &K(2).PublicKey, K(2))
	certCache.Store("c1p", c)
	return c
}

func CertPEM(c *x509.Certificate) []byte {
	return pem.EncodeToMemory(&pem.Block{Type: "CERTIFICATE", Bytes: c.Raw})
}

// CA is a certificate authority certificate (key 2) used to issue leaf
// certificates whose issuer differs from their subject.
func CA() *x509.Certificate {
	if c, ok := certCache.Load("ca"); ok {
		return c.(*x509.Certificate)
	}
	tmpl := &x509.Certificate{SerialNumber: big.NewInt(0x7001), Subject: pkix.Name{CommonName: "verif issuing CA", Organization: []string{"verif-ca"}},
		NotBefore: NotBefore, NotAfter: NotAfter, IsCA: true, BasicConstraintsValid: true, KeyUsage: x509.KeyUsageCertSign, SignatureAlgorithm: x509.SHA256WithRSA}
	der, err := x509.CreateCertificate(rand.Reader, tmpl, tmpl, &K(2).PublicKey, K(2))
	if err != nil {
		panic(err)
	}
	c, _ := x509.ParseCertificate(der)
	certCache.Store("ca", c)
	return c
}

// Leaf returns a certificate for key n issued by CA(): issuer != subject.
func Leaf(n int) *x509.Certificate {
	key := "leaf" + string(rune('0'+n))
	if c, ok := certCache.Load(key); ok {
		return c.(*x509.Certificate)
	}
	tmpl := &x509.Certificate{SerialNumber: big.NewInt(int64(0x7100 + n)), Subject: pkix.Name{CommonName: "verif leaf k" + string(rune('0'+n))},
		NotBefore: NotBefore, NotAfter: NotAfter, KeyUsage: x509.KeyUsageDigitalSignature, ExtKeyUsage: []x509.ExtKeyUsage{x509.ExtKeyUsageCodeSigning},
		BasicConstraintsValid: true, SignatureAlgorithm: x509.SHA256WithRSA}
	der, err := x509.CreateCertificate(rand.Reader, tmpl, CA(), &K(n).PublicKey, K(2))
	if err != nil {
		panic(err)
	}
	c, _ := x509.ParseCertificate(der)
	certCache.Store(key, c)
	return c
}
