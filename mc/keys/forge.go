package keys

import (
	"crypto/rsa"
	"math/big"
)

// Forgeries against an RSA public key with exponent 3, made WITHOUT the private key
// (Bleichenbacher 2006 and its variants). Each returns a value s of the size of the modulus whose
// cube, read as a PKCS#1 v1.5 block, starts 00 01 FF.. 00 DigestInfo(SHA-256, digest) but is not
// the one block RFC 8017 8.2.2 allows. A verifier that re-encodes and compares rejects all of them.
type Forgery struct {
	Name string
	Sig  []byte
}

var sha256Prefix = []byte{0x30, 0x31, 0x30, 0x0d, 0x06, 0x09, 0x60, 0x86, 0x48, 0x01, 0x65, 0x03, 0x04, 0x02, 0x01, 0x05, 0x00, 0x04, 0x20}
var sha256PrefixNoNull = []byte{0x30, 0x2f, 0x30, 0x0b, 0x06, 0x09, 0x60, 0x86, 0x48, 0x01, 0x65, 0x03, 0x04, 0x02, 0x01, 0x04, 0x20}

func cbrtCeil(x *big.Int) *big.Int {
	lo, hi := big.NewInt(0), new(big.Int).Lsh(big.NewInt(1), uint(x.BitLen()/3+2))
	for lo.Cmp(hi) < 0 {
		mid := new(big.Int).Add(lo, hi)
		mid.Rsh(mid, 1)
		c := new(big.Int).Mul(mid, mid)
		c.Mul(c, mid)
		if c.Cmp(x) < 0 {
			lo = mid.Add(mid, big.NewInt(1))
		} else {
			hi = mid
		}
	}
	return lo
}

// ForgeE3 returns the forgeries for a 32-byte digest; nil if pub.E != 3.
func ForgeE3(pub *rsa.PublicKey, digest []byte) []Forgery {
	if pub.E != 3 || len(digest) != 32 {
		return nil
	}
	k := pub.Size()
	var out []Forgery
	head := func(npad int, di []byte) []byte {
		b := []byte{0x00, 0x01}
		for i := 0; i < npad; i++ {
			b = append(b, 0xff)
		}
		b = append(b, 0x00)
		b = append(b, di...)
		return append(b, digest...)
	}
	trailing := func(name string, h []byte) {
		blk := make([]byte, k)
		copy(blk, h)
		s := cbrtCeil(new(big.Int).SetBytes(blk))
		cube := new(big.Int).Exp(s, big.NewInt(3), nil)
		if cube.Cmp(pub.N) >= 0 {
			return
		}
		got := cube.FillBytes(make([]byte, k))
		if string(got[:len(h)]) != string(h) {
			return
		}
		out = append(out, Forgery{name, s.FillBytes(make([]byte, k))})
	}
	trailing("cube root: eight padding octets, the DigestInfo, then arbitrary octets to the end of the block", head(8, sha256Prefix))
	trailing("cube root: eight padding octets, a DigestInfo without the NULL parameters, then arbitrary octets", head(8, sha256PrefixNoNull))
	trailing("cube root: no padding octets at all, the DigestInfo, then arbitrary octets", head(0, sha256Prefix))
	trailing("cube root: twenty padding octets, the DigestInfo, then arbitrary octets", head(20, sha256Prefix))
	// arbitrary octets in the middle (inside the algorithm parameters), the digest at the very end
	if digest[31]&1 == 1 {
		// block: 00 01 FF*8 00 30 L1 30 L2 OID 04? -> parameters: an OCTET STRING swallowing the garbage
		tailLen := 2 + 32 // 04 20 digest
		fixed := 2 + 8 + 1
		// 30 82 xx xx | 30 82 yy yy | 06 09 oid | 04 82 zz zz garbage | 04 20 digest
		g := k - fixed - 4 - 4 - 11 - 4 - tailLen
		if g > 60 {
			oid := sha256Prefix[4:15]
			algLen := 11 + 4 + g
			diLen := 4 + algLen + tailLen
			pre := append([]byte{0x00, 0x01, 0xff, 0xff, 0xff, 0xff, 0xff, 0xff, 0xff, 0xff, 0x00, 0x30, 0x82, byte(diLen >> 8), byte(diLen), 0x30, 0x82, byte(algLen >> 8), byte(algLen)}, oid...)
			pre = append(pre, 0x04, 0x82, byte(g>>8), byte(g))
			suf := append([]byte{0x04, 0x20}, digest...)
			// low part: y with y^3 == suf mod 2^(8*len(suf)) by Hensel lifting (suf is odd)
			bits := uint(8 * len(suf))
			want := new(big.Int).SetBytes(suf)
			y := big.NewInt(1)
			for b := uint(1); b < bits; b++ {
				m := new(big.Int).Lsh(big.NewInt(1), b+1)
				c := new(big.Int).Exp(y, big.NewInt(3), m)
				w := new(big.Int).Mod(want, m)
				if c.Cmp(w) != 0 {
					y.SetBit(y, int(b), 1)
				}
			}
			blk := make([]byte, k)
			copy(blk, pre)
			for i := len(pre); i < k; i++ {
				blk[i] = 0x80
			}
			s := cbrtCeil(new(big.Int).SetBytes(blk))
			s.Rsh(s, bits).Lsh(s, bits).Or(s, y)
			cube := new(big.Int).Exp(s, big.NewInt(3), nil)
			got := cube.FillBytes(make([]byte, max(k, (cube.BitLen()+7)/8)))
			if len(got) == k && cube.Cmp(pub.N) < 0 && string(got[:len(pre)]) == string(pre) && string(got[k-len(suf):]) == string(suf) {
				out = append(out, Forgery{"cube root: arbitrary octets inside the algorithm parameters, the digest at the end of the block", s.FillBytes(make([]byte, k))})
			}
		}
	}
	return out
}
