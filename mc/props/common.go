// Package props holds one file per property: alphabet, bound and oracle.
package props

import (
	"bytes"
	"encoding/binary"
	"encoding/hex"
	"fmt"
	"io"
	"reflect"
	"time"

	"github.com/foxboron/go-uefi/efi/signature"
	"github.com/foxboron/go-uefi/efi/util"

	"verif/ref/refesl"
)

func hx8(b []byte) string {
	if len(b) > 4096 {
		return hex.EncodeToString(b[:4096]) + fmt.Sprintf("...(%d bytes)", len(b))
	}
	return hex.EncodeToString(b)
}

func dur(quick, thorough time.Duration) func(string) time.Duration {
	return func(t string) time.Duration {
		if t == "thorough" {
			return thorough
		}
		return quick
	}
}

// wire converts a library GUID value to wire order field by field.
func wire(g util.EFIGUID) refesl.GUID {
	return refesl.MkGUID(g.Data1, g.Data2, g.Data3, g.Data4)
}

func unwire(g refesl.GUID) util.EFIGUID {
	var d4 [8]byte
	copy(d4[:], g[8:])
	return util.EFIGUID{Data1: binary.LittleEndian.Uint32(g[0:]), Data2: binary.LittleEndian.Uint16(g[4:]), Data3: binary.LittleEndian.Uint16(g[6:]), Data4: d4}
}

// libToRef copies the library's view of a database into reference structures.
func libToRef(db signature.SignatureDatabase) []refesl.List {
	var out []refesl.List
	for _, l := range db {
		if l == nil {
			out = append(out, refesl.List{})
			continue
		}
		r := refesl.List{Type: wire(l.SignatureType), ListSize: l.ListSize, HeaderSize: l.HeaderSize, SigSize: l.Size,
			Header: append([]byte{}, l.SignatureHeader...)}
		for _, s := range l.Signatures {
			r.Entries = append(r.Entries, refesl.Entry{Owner: wire(s.Owner), Data: append([]byte{}, s.Data...)})
		}
		out = append(out, r)
	}
	return out
}

func listsEqual(a, b []refesl.List) (bool, string) {
	if len(a) != len(b) {
		return false, fmt.Sprintf("list count %d vs %d", len(a), len(b))
	}
	for i := range a {
		x, y := a[i], b[i]
		switch {
		case x.Type != y.Type:
			return false, fmt.Sprintf("list %d: type", i)
		case x.ListSize != y.ListSize:
			return false, fmt.Sprintf("list %d: ListSize %d vs %d", i, x.ListSize, y.ListSize)
		case x.HeaderSize != y.HeaderSize:
			return false, fmt.Sprintf("list %d: HeaderSize %d vs %d", i, x.HeaderSize, y.HeaderSize)
		case x.SigSize != y.SigSize:
			return false, fmt.Sprintf("list %d: SignatureSize %d vs %d", i, x.SigSize, y.SigSize)
		case !bytes.Equal(x.Header, y.Header):
			return false, fmt.Sprintf("list %d: header bytes", i)
		case len(x.Entries) != len(y.Entries):
			return false, fmt.Sprintf("list %d: entry count %d vs %d", i, len(x.Entries), len(y.Entries))
		}
		for j := range x.Entries {
			if x.Entries[j].Owner != y.Entries[j].Owner {
				return false, fmt.Sprintf("list %d entry %d: owner", i, j)
			}
			if !bytes.Equal(x.Entries[j].Data, y.Entries[j].Data) {
				return false, fmt.Sprintf("list %d entry %d: data", i, j)
			}
		}
	}
	return true, ""
}

func describeLists(ls []refesl.List) string {
	s := ""
	for _, l := range ls {
		t := "?"
		switch l.Type {
		case refesl.X509:
			t = "X509"
		case refesl.SHA256:
			t = "SHA256"
		case refesl.EXTMGT:
			t = "EXT"
		}
		s += fmt.Sprintf("[%s size=%d n=%d]", t, l.SigSize, len(l.Entries))
	}
	if s == "" {
		return "(empty)"
	}
	return s
}

func trunc(s string, n int) string {
	if len(s) > n {
		return s[:n] + "..."
	}
	return s
}

// pausingReader returns (0, nil) before every read that delivers data: io.Reader allows that
// ("nothing happened; in particular it does not indicate EOF") and non-blocking sources do it.
type pausingReader struct {
	r     io.Reader
	pause int
	n     int
}

func (p *pausingReader) Read(b []byte) (int, error) {
	if p.n < p.pause {
		p.n++
		return 0, nil
	}
	p.n = 0
	if len(b) > 3 {
		b = b[:1+len(b)/2]
	}
	return p.r.Read(b)
}

// PausingReader: one (0, nil) between any two reads with data.
func PausingReader(r io.Reader) io.Reader { return &pausingReader{r: r, pause: 1} }

// LongPausingReader: three (0, nil) in a row between reads with data.
func LongPausingReader(r io.Reader) io.Reader { return &pausingReader{r: r, pause: 3} }

// scribbleResult overwrites everything a caller can reach in a value the library returned: every
// element (spare capacity included) of every byte and integer slice behind exported fields,
// recursively. What an operation returns belongs to the caller; if it is the library's own storage
// (an exported table, an OID variable, a buffer of the object), later calls show it.
func scribbleResult(v any) {
	seen := map[uintptr]bool{}
	var walk func(rv reflect.Value, depth int)
	walk = func(rv reflect.Value, depth int) {
		if depth > 8 || !rv.IsValid() {
			return
		}
		switch rv.Kind() {
		case reflect.Ptr:
			if rv.IsNil() || seen[rv.Pointer()] {
				return
			}
			seen[rv.Pointer()] = true
			walk(rv.Elem(), depth+1)
		case reflect.Interface:
			if !rv.IsNil() {
				walk(rv.Elem(), depth+1)
			}
		case reflect.Struct:
			t := rv.Type()
			if t.PkgPath() == "crypto/x509" || t.PkgPath() == "math/big" || t.PkgPath() == "time" {
				return // values of other packages are not taken apart
			}
			for i := 0; i < rv.NumField(); i++ {
				if t.Field(i).IsExported() {
					walk(rv.Field(i), depth+1)
				}
			}
		case reflect.Slice:
			if rv.IsNil() {
				return
			}
			ek := rv.Type().Elem().Kind()
			full := rv
			if rv.CanAddr() {
				full = rv.Slice(0, rv.Cap())
			}
			switch ek {
			case reflect.Uint8, reflect.Uint16, reflect.Uint32, reflect.Uint64, reflect.Uint:
				for i := 0; i < full.Len(); i++ {
					if full.Index(i).CanSet() {
						full.Index(i).SetUint(0x5a)
					}
				}
			case reflect.Int, reflect.Int8, reflect.Int16, reflect.Int32, reflect.Int64:
				for i := 0; i < full.Len(); i++ {
					if full.Index(i).CanSet() {
						full.Index(i).SetInt(0x5a)
					}
				}
			default:
				for i := 0; i < rv.Len() && i < 64; i++ {
					walk(rv.Index(i), depth+1)
				}
			}
		case reflect.Array:
			for i := 0; i < rv.Len() && i < 64; i++ {
				walk(rv.Index(i), depth+1)
			}
		}
	}
	walk(reflect.ValueOf(v), 0)
}
