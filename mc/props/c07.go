//go:build !verifsched

package props

import (
	"bytes"
	"fmt"
	"io"
	"os"
	"path/filepath"
	"strconv"
	"strings"
	"testing/iotest"
	"time"

	"github.com/foxboron/go-uefi/efi/signature"

	"verif/internal/hx"
	"verif/ref/refesl"
)

const c07Shards = 32

func init() {
	hx.Register(&hx.Prop{
		ID:    "C07",
		Level: "exploration",
		Rule: "every well-formed EFI_SIGNATURE_LIST stream over {X.509 (data length 1,5,6), SHA-256, externally-managed} lists x 0..n entries x owner{A,B} x fill{p,q}, " +
			"in every order, up to the list bound, plus the repository's captured variables (each also decoded through a *bytes.Buffer that is scribbled over afterwards: the decoded value must not alias it); each stream is decoded by the library and compared field by field with the reference decode and re-encoded byte for byte. " +
			"converse: every database built from the empty one by <=2 (thorough 3) operations of the C09 alphabet (database- and list-level appends with DER/PEM input, removes, AppendList, AppendDatabase) must encode to a well-formed stream carrying exactly its lists and decode to an equal database. non-trivial = reference and library both produced at least one list; distinct = distinct stream bytes",
		Assumptions: []string{"reference codec refesl written from UEFI 2.8 section 32.4.1", "the converse direction is also evaluated in every state of C09's deeper search"},
		Units: func(tier string) []string {
			var u []string
			for i := 0; i < c07Shards; i++ {
				u = append(u, "streams#"+strconv.Itoa(i))
			}
			for i := range c09Ops() {
				u = append(u, "converse#"+strconv.Itoa(i))
			}
			// ... and from decoded databases (several same-shape lists; an empty list with a real
			// SignatureSize; a list holding one entry twice)
			for ii := range c09Inits() {
				if ii == 0 {
					continue
				}
				for i, op := range c09Ops() {
					if op.kind == "remove" || op.kind == "append" || op.kind == "listappend" {
						u = append(u, "converse#"+strconv.Itoa(i)+"#"+strconv.Itoa(ii))
					}
				}
			}
			return append(u, "fixtures", "large")
		},
		Run: c07Run,
		Bound: func(tier string) map[string]any {
			ml, me := c07Bound(tier)
			return map[string]any{"max_lists": ml, "max_entries_per_list": me, "list_shapes": len(listShapes(me))}
		},
		Budget: dur(3*time.Minute, 20*time.Minute),
	})
}

func c07Bound(tier string) (maxLists, maxEntries int) {
	if tier == "thorough" {
		return 3, 2
	}
	return 2, 2
}

func c07CheckStream(c *hx.Ctx, s []byte, want []refesl.List, label string) {
	aliasing := false
	outAlias := false
	reused := false
	readerDep := ""
	var db signature.SignatureDatabase
	var err error
	var enc []byte
	if p := hx.Try(func() {
		db, err = signature.ReadSignatureDatabase(bytes.NewReader(s))
		if err == nil {
			enc = db.Bytes()
		}
		// an encoding handed out must stay what it is when other values are encoded afterwards
		if err == nil && len(enc) > 0 {
			keep := enc
			want0 := append([]byte{}, enc...)
			other := signature.NewSignatureDatabase()
			other.Append(signature.CERT_SHA256_GUID, unwire(ownerB), fill(32, 0x77))
			_ = other.Bytes()
			for _, l := range *other {
				_ = l.Bytes()
			}
			var mb bytes.Buffer
			other.Marshal(&mb)
			if !bytes.Equal(keep, want0) {
				outAlias = true
			}
		}
		// decoding into a value that already holds something replaces it
		if err == nil {
			var used signature.SignatureDatabase
			used.Append(signature.CERT_SHA256_GUID, unwire(ownerB), fill(32, 0x55))
			used.Append(signature.CERT_X509_GUID, unwire(ownerA), fill(9, 0x44))
			if e4 := used.Unmarshal(bytes.NewBuffer(append([]byte{}, s...))); e4 != nil || !bytes.Equal(used.Bytes(), s) {
				reused = true
			}
		}
		// readers that deliver data in other portions (one byte at a time, half reads, data together with io.EOF)
		if err == nil {
			for _, mk := range []func(io.Reader) io.Reader{iotest.OneByteReader, iotest.HalfReader, iotest.DataErrReader, PausingReader, LongPausingReader} {
				dbr, e3 := signature.ReadSignatureDatabase(mk(bytes.NewReader(s)))
				if e3 != nil || !bytes.Equal(dbr.Bytes(), s) {
					readerDep = fmt.Sprint(e3)
				}
			}
		}
		// the decoded value must not depend on the caller's buffer: decode through a
		// *bytes.Buffer (the path GetVar uses), reuse the buffer, then look at the value
		if err == nil && len(s) > 0 {
			store := append([]byte{}, s...)
			buf := bytes.NewBuffer(store)
			var db2 signature.SignatureDatabase
			if e2 := db2.Unmarshal(buf); e2 == nil {
				for i := range store {
					store[i] ^= 0xff
				}
				buf.Reset()
				buf.Write(bytes.Repeat([]byte{0xee}, len(s)))
				if !bytes.Equal(db2.Bytes(), s) {
					aliasing = true
				}
			} else {
				err = e2
			}
		}
	}); p != nil {
		c.Outcome("panic")
		c.Violation("C07 decode/encode of a well-formed stream ends in "+p.String(), map[string]any{"stream": hx8(s), "shape": label, "stack": p.Stack})
		return
	}
	if err != nil {
		c.Outcome("decode-error")
		c.Violation("C07 well-formed stream rejected: "+errClass(err), map[string]any{"stream": hx8(s), "shape": label, "error": err.Error()})
		return
	}
	got := libToRef(db)
	if ok, why := listsEqual(got, want); !ok {
		c.Outcome("decode-mismatch")
		c.Violation("C07 decode differs from the specification layout: "+mismatchClass(why, want), map[string]any{"stream": hx8(s), "shape": label, "difference": why})
		return
	}
	if !bytes.Equal(enc, s) {
		c.Outcome("reencode-mismatch")
		c.Violation("C07 re-encoding differs from the input: "+typesOf(want), map[string]any{"stream": hx8(s), "reencoded": hx8(enc), "shape": label})
		return
	}
	if outAlias {
		c.Outcome("encoding-aliases-shared-buffer")
		c.Violation("C07 an encoding returned earlier changes when another value is encoded afterwards", map[string]any{"stream": hx8(s), "shape": label})
		return
	}
	if reused {
		c.Outcome("decode-into-used-value")
		c.Violation("C07 decoding into a database value that already holds lists does not yield exactly the stream's lists", map[string]any{"stream": hx8(s), "shape": label})
		return
	}
	if readerDep != "" {
		c.Outcome("decode-depends-on-read-portions")
		c.Violation("C07 decoding a well-formed stream depends on how the reader portions the data (one byte, half reads, data together with io.EOF)", map[string]any{"stream": hx8(s), "shape": label, "error": readerDep})
		return
	}
	if aliasing {
		c.Outcome("decoded-value-aliases-input")
		c.Violation("C07 a decoded database changes when the caller reuses the buffer it was decoded from", map[string]any{"stream": hx8(s), "shape": label})
		return
	}
	c.Outcome("roundtrip-ok")
	if len(want) > 0 {
		c.Nontrivial(s)
	}
}

func errClass(err error) string {
	s := err.Error()
	if i := strings.LastIndex(s, ": "); i >= 0 {
		s = s[i+2:]
	}
	if len(s) > 60 {
		s = s[:60]
	}
	return s
}

func typesOf(ls []refesl.List) string {
	seen := map[string]bool{}
	var out []string
	for _, l := range ls {
		t := "other"
		switch l.Type {
		case refesl.X509:
			t = "X509"
		case refesl.SHA256:
			t = "SHA256"
		case refesl.EXTMGT:
			t = "EXTERNAL_MANAGEMENT"
		}
		if len(l.Entries) == 0 {
			t += "(0 entries)"
		}
		if !seen[t] {
			seen[t] = true
			out = append(out, t)
		}
	}
	return "list types {" + strings.Join(out, ",") + "}"
}

func mismatchClass(why string, want []refesl.List) string {
	// "list 1: entry count 0 vs 2" -> field name + type of the list concerned
	idx := -1
	fmt.Sscanf(why, "list %d:", &idx)
	if i := strings.Index(why, ": "); i >= 0 {
		why = why[i+2:]
	}
	f := strings.Fields(why)
	if len(f) > 2 {
		f = f[:2]
	}
	where := typesOf(want)
	if idx >= 0 && idx < len(want) {
		where = typesOf(want[idx : idx+1])
	}
	return strings.Join(f, " ") + " in " + where
}

// c07Converse: every database built through the library's own operations
// (the C09 alphabet: database-level append/remove with DER and PEM input,
// list-level AppendBytes + AppendList, AppendDatabase) encodes to a well-formed
// stream that carries exactly its lists and, when all types are decodable,
// decodes to an equal database. Bounded breadth-first enumeration of operation
// sequences from the empty database, first operation fixed per unit.
func c07Converse(c *hx.Ctx, tier string, first int, initIdx int) {
	c.NoOnly = true // a state search: cases depend on each other
	ops := c09Ops()
	depth := 2
	if tier == "thorough" {
		depth = 3
	}
	seen := map[string]bool{}
	type node struct{ path []int }
	frontier := []node{{nil}}
	for level := 0; level < depth; level++ {
		var next []node
		for _, nd := range frontier {
			for oi := range ops {
				if level == 0 && oi != first {
					continue
				}
				if ops[oi].kind == "encdec" {
					continue
				}
				if !c.Next() {
					continue
				}
				db := signature.NewSignatureDatabase()
				if initIdx > 0 {
					db = c09Inits()[initIdx].mk()
				}
				path := append(append([]int{}, nd.path...), oi)
				var enc []byte
				var names []string
				pn := hx.Try(func() {
					for _, pi := range path {
						c09Apply(db, ops[pi])
						names = append(names, ops[pi].name)
					}
					enc = db.Bytes()
				})
				if pn != nil {
					c.Violation("C07 building/encoding a database through library operations ends in "+pn.String(), map[string]any{"history": names})
					continue
				}
				k := string(enc) + "|" + c09Key(db)
				if seen[k] {
					continue
				}
				seen[k] = true
				next = append(next, node{path})
				ref, _, err := refesl.Decode(enc)
				if err != nil {
					c.Outcome("built-db-malformed")
					c.Violation("C07 a database built through library operations does not encode to a well-formed stream", map[string]any{"history": names, "stream": hx8(enc), "reference_error": err.Error()})
					continue
				}
				if ok, why := listsEqual(ref, libToRef(*db)); !ok {
					c.Outcome("built-db-mismatch")
					c.Violation("C07 the encoding of a database built through library operations does not carry its lists", map[string]any{"history": names, "difference": why})
					continue
				}
				decodable := true
				for _, l := range ref {
					if l.Type != refesl.X509 && l.Type != refesl.SHA256 && l.Type != refesl.EXTMGT {
						decodable = false
					}
				}
				if decodable {
					back, derr := signature.ReadSignatureDatabase(bytes.NewReader(enc))
					if derr != nil {
						c.Outcome("built-db-undecodable")
						c.Violation("C07 a database built through library operations does not decode again", map[string]any{"history": names, "stream": hx8(enc), "error": derr.Error()})
						continue
					}
					if ok, why := listsEqual(libToRef(back), ref); !ok {
						c.Outcome("built-db-decodes-differently")
						c.Violation("C07 a database built through library operations decodes to a different database", map[string]any{"history": names, "difference": why})
						continue
					}
				}
				c.Outcome("built-db-ok")
				c.Nontrivial(enc, []byte(c09Key(db)))
				if len(seen)%200 == 1 {
					c.Sample(map[string]any{"history": names, "stream_len": len(enc)})
				}
			}
		}
		frontier = next
	}
}

func c07Run(c *hx.Ctx, tier, unit string) {
	if unit == "fixtures" {
		c07Fixtures(c)
		return
	}
	if unit == "large" {
		// "any certificate size and count": single entries just above every power of two and power of
		// ten up to 32 MiB (thorough: 64 MiB), decoded, re-encoded, and built through Append
		for _, n := range c07LargeSizes(tier) {
			if !c.Next() {
				continue
			}
			c.Tick()
			ls := []refesl.List{refesl.Mk(refesl.SHA256, 48, refesl.Entry{Owner: ownerA, Data: fill(32, 3)}), refesl.Mk(refesl.X509, uint32(16+n), refesl.Entry{Owner: ownerB, Data: fill(n, 0x29)})}
			s := refesl.Encode(ls)
			c.Sample(map[string]any{"entry_bytes": n, "stream_bytes": len(s)})
			c07CheckStream(c, s, ls, fmt.Sprintf("SHA256 list + X.509 list with one %d-byte entry", n))
			if !c.Next() {
				continue
			}
			db := signature.NewSignatureDatabase()
			var err error
			if p := hx.Try(func() { err = db.Append(signature.CERT_X509_GUID, unwire(ownerB), fill(n, 0x29)) }); p != nil || err != nil {
				c.Violation("C07 a database built through library operations: Append of a large X.509 entry fails", map[string]any{"entry_bytes": n, "error": fmt.Sprint(err, p)})
				continue
			}
			enc := db.Bytes()
			back, _, rerr := refesl.Decode(enc)
			var db2 signature.SignatureDatabase
			var derr error
			hx.Try(func() { db2, derr = signature.ReadSignatureDatabase(bytes.NewReader(enc)) })
			if rerr != nil || len(back) != 1 || derr != nil || !bytes.Equal(db2.Bytes(), enc) {
				c.Outcome("violation")
				c.Violation("C07 a database built through library operations does not decode to an equal database (large entry)", map[string]any{"entry_bytes": n, "reference_error": fmt.Sprint(rerr), "library_error": fmt.Sprint(derr)})
				continue
			}
			c.Outcome("large-built-ok")
			c.Nontrivial([]byte(fmt.Sprint("built", n)))
		}
		return
	}
	if strings.HasPrefix(unit, "converse#") {
		pp := strings.Split(unit, "#")
		first, _ := strconv.Atoi(pp[1])
		initIdx := 0
		if len(pp) > 2 {
			initIdx, _ = strconv.Atoi(pp[2])
		}
		c07Converse(c, tier, first, initIdx)
		return
	}
	shard, _ := strconv.Atoi(strings.TrimPrefix(unit, "streams#"))
	ml, me := c07Bound(tier)
	shapes := listShapes(me)
	forStreams(shapes, ml, shard, c07Shards, func(ls []refesl.List) bool {
		if !c.Next() {
			return true
		}
		s := refesl.Encode(ls)
		if c.Index()%50000 == 1 {
			c.Sample(map[string]any{"shape": describeLists(ls), "stream": hx8(s)})
		}
		// self-check of the generator against the reference decoder
		back, amb, err := refesl.Decode(s)
		if err != nil || amb {
			c.Note("generator produced a stream the reference rejects: %v", err)
			return true
		}
		c07CheckStream(c, s, back, describeLists(ls))
		return !c.Expired()
	})
}

func c07LargeSizes(tier string) []int {
	var out []int
	top := 25
	if tier == "thorough" {
		top = 26
	}
	for k := 12; k <= top; k++ {
		out = append(out, 1<<k+1)
	}
	return append(out, 100001, 1000001, 10000001)
}

// c07Fixtures round-trips the captured variables shipped with the repository.
func c07Fixtures(c *hx.Ctx) {
	var files []string
	for _, pat := range []string{"/repo/efi/signature/testdata/*/*", "/repo/efi/signature/testdata/*", "/repo/efivarfs/testdata/*", "/repo/tests/data/signatures/*/*", "/repo/tests/data/signatures/*"} {
		m, _ := filepath.Glob(pat)
		files = append(files, m...)
	}
	for _, f := range files {
		st, err := os.Stat(f)
		if err != nil || st.IsDir() {
			continue
		}
		b, err := os.ReadFile(f)
		if err != nil {
			continue
		}
		// captured efivarfs files carry a 4-byte attribute prefix; plain .esl files do not
		for _, off := range []int{0, 4} {
			if len(b) < off {
				continue
			}
			s := b[off:]
			want, amb, err := refesl.Decode(s)
			if err != nil || amb || len(want) == 0 {
				continue
			}
			handled := true
			for _, l := range want {
				if l.Type != refesl.X509 && l.Type != refesl.SHA256 && l.Type != refesl.EXTMGT {
					handled = false
				}
				if l.HeaderSize != 0 {
					handled = false
				}
			}
			if !handled {
				continue
			}
			if !c.Next() {
				continue
			}
			c.Count("fixtures", 1)
			c.Sample(map[string]any{"fixture": fmt.Sprintf("%s+%d", f, off), "shape": describeLists(want)})
			c07CheckStream(c, s, want, f)
		}
	}
}
