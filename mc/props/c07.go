//go:build !verifsched

package props

import (
	"bytes"
	"fmt"
	"os"
	"path/filepath"
	"strconv"
	"strings"
	"time"

	"github.com/foxboron/go-uefi/efi/signature"

	"verif/internal/hx"
	"verif/ref/refesl"
)

const c07Shards = 32

func init() {
	hx.Register(&hx.Prop{
		ID:    "C07",
		Level: "exploration",
		Rule: "every well-formed EFI_SIGNATURE_LIST stream over {X.509 (data length 1,5,6), SHA-256, externally-managed} lists x 0..n entries x owner{A,B} x fill{p,q}, " +
			"in every order, up to the list bound, plus the repository's captured variables; each stream is decoded by the library and compared field by field with the reference decode and re-encoded byte for byte. " +
			"non-trivial = reference and library both produced at least one list; distinct = distinct stream bytes",
		Assumptions: []string{"reference codec refesl written from UEFI 2.8 section 32.4.1", "converse direction (databases built by library operations) is executed inside C09's state-space search"},
		Units: func(tier string) []string {
			var u []string
			for i := 0; i < c07Shards; i++ {
				u = append(u, "streams#"+strconv.Itoa(i))
			}
			return append(u, "fixtures")
		},
		Run: c07Run,
		Bound: func(tier string) map[string]any {
			ml, me := c07Bound(tier)
			return map[string]any{"max_lists": ml, "max_entries_per_list": me, "list_shapes": len(listShapes(me))}
		},
		Budget: dur(3*time.Minute, 20*time.Minute),
	})
}

func c07Bound(tier string) (maxLists, maxEntries int) {
	if tier == "thorough" {
		return 3, 2
	}
	return 2, 2
}

func c07CheckStream(c *hx.Ctx, s []byte, want []refesl.List, label string) {
	var db signature.SignatureDatabase
	var err error
	var enc []byte
	if p := hx.Try(func() {
		db, err = signature.ReadSignatureDatabase(bytes.NewReader(s))
		if err == nil {
			enc = db.Bytes()
		}
	}); p != nil {
		c.Outcome("panic")
		c.Violation("C07 decode/encode of a well-formed stream ends in "+p.String(), map[string]any{"stream": hx8(s), "shape": label, "stack": p.Stack})
		return
	}
	if err != nil {
		c.Outcome("decode-error")
		c.Violation("C07 well-formed stream rejected: "+errClass(err), map[string]any{"stream": hx8(s), "shape": label, "error": err.Error()})
		return
	}
	got := libToRef(db)
	if ok, why := listsEqual(got, want); !ok {
		c.Outcome("decode-mismatch")
		c.Violation("C07 decode differs from the specification layout: "+mismatchClass(why, want), map[string]any{"stream": hx8(s), "shape": label, "difference": why})
		return
	}
	if !bytes.Equal(enc, s) {
		c.Outcome("reencode-mismatch")
		c.Violation("C07 re-encoding differs from the input: "+typesOf(want), map[string]any{"stream": hx8(s), "reencoded": hx8(enc), "shape": label})
		return
	}
	c.Outcome("roundtrip-ok")
	if len(want) > 0 {
		c.Nontrivial(s)
	}
}

func errClass(err error) string {
	s := err.Error()
	if i := strings.LastIndex(s, ": "); i >= 0 {
		s = s[i+2:]
	}
	if len(s) > 60 {
		s = s[:60]
	}
	return s
}

func typesOf(ls []refesl.List) string {
	seen := map[string]bool{}
	var out []string
	for _, l := range ls {
		t := "other"
		switch l.Type {
		case refesl.X509:
			t = "X509"
		case refesl.SHA256:
			t = "SHA256"
		case refesl.EXTMGT:
			t = "EXTERNAL_MANAGEMENT"
		}
		if len(l.Entries) == 0 {
			t += "(0 entries)"
		}
		if !seen[t] {
			seen[t] = true
			out = append(out, t)
		}
	}
	return "list types {" + strings.Join(out, ",") + "}"
}

func mismatchClass(why string, want []refesl.List) string {
	// "list 1: entry count 0 vs 2" -> field name + type of the list concerned
	idx := -1
	fmt.Sscanf(why, "list %d:", &idx)
	if i := strings.Index(why, ": "); i >= 0 {
		why = why[i+2:]
	}
	f := strings.Fields(why)
	if len(f) > 2 {
		f = f[:2]
	}
	where := typesOf(want)
	if idx >= 0 && idx < len(want) {
		where = typesOf(want[idx : idx+1])
	}
	return strings.Join(f, " ") + " in " + where
}

func c07Run(c *hx.Ctx, tier, unit string) {
	if unit == "fixtures" {
		c07Fixtures(c)
		return
	}
	shard, _ := strconv.Atoi(strings.TrimPrefix(unit, "streams#"))
	ml, me := c07Bound(tier)
	shapes := listShapes(me)
	forStreams(shapes, ml, shard, c07Shards, func(ls []refesl.List) bool {
		if !c.Next() {
			return true
		}
		s := refesl.Encode(ls)
		if c.Index()%50000 == 1 {
			c.Sample(map[string]any{"shape": describeLists(ls), "stream": hx8(s)})
		}
		// self-check of the generator against the reference decoder
		back, amb, err := refesl.Decode(s)
		if err != nil || amb {
			c.Note("generator produced a stream the reference rejects: %v", err)
			return true
		}
		c07CheckStream(c, s, back, describeLists(ls))
		return !c.Expired()
	})
}

// c07Fixtures round-trips the captured variables shipped with the repository.
func c07Fixtures(c *hx.Ctx) {
	var files []string
	for _, pat := range []string{"/repo/efi/signature/testdata/*/*", "/repo/efi/signature/testdata/*", "/repo/efivarfs/testdata/*", "/repo/tests/data/signatures/*/*", "/repo/tests/data/signatures/*"} {
		m, _ := filepath.Glob(pat)
		files = append(files, m...)
	}
	for _, f := range files {
		st, err := os.Stat(f)
		if err != nil || st.IsDir() {
			continue
		}
		b, err := os.ReadFile(f)
		if err != nil {
			continue
		}
		// captured efivarfs files carry a 4-byte attribute prefix; plain .esl files do not
		for _, off := range []int{0, 4} {
			if len(b) < off {
				continue
			}
			s := b[off:]
			want, amb, err := refesl.Decode(s)
			if err != nil || amb || len(want) == 0 {
				continue
			}
			handled := true
			for _, l := range want {
				if l.Type != refesl.X509 && l.Type != refesl.SHA256 && l.Type != refesl.EXTMGT {
					handled = false
				}
				if l.HeaderSize != 0 {
					handled = false
				}
			}
			if !handled {
				continue
			}
			if !c.Next() {
				continue
			}
			c.Count("fixtures", 1)
			c.Sample(map[string]any{"fixture": fmt.Sprintf("%s+%d", f, off), "shape": describeLists(want)})
			c07CheckStream(c, s, want, f)
		}
	}
}
