//go:build !verifsched

package props

import (
	"bytes"
	"crypto"
	"crypto/sha256"
	"encoding/binary"
	"fmt"
	"io"

	"github.com/foxboron/go-uefi/authenticode"

	"verif/gen/pegen"
	"verif/internal/hx"
	"verif/keys"
	"verif/ref/refp7"
	"verif/ref/refpe"
)

// sparseImage is a PE image whose only section is a run of zero bytes, served without holding it
// in memory: images of 2 GiB and more are well-formed (file offsets are 32-bit) and must sign.
type sparseImage struct {
	hdr  []byte
	size int64
}

func (s *sparseImage) ReadAt(p []byte, off int64) (int, error) {
	if off >= s.size {
		return 0, io.EOF
	}
	n := len(p)
	if int64(n) > s.size-off {
		n = int(s.size - off)
	}
	clear(p[:n])
	if off < int64(len(s.hdr)) {
		copy(p[:n], s.hdr[off:])
	}
	if n < len(p) {
		return n, io.EOF
	}
	return n, nil
}

// c03Huge signs images around the 2^31 mark (thorough: also just below 2^32) and checks the
// clauses of the statement on the streamed output.
func c03Huge(c *hx.Ctx, tier string) {
	c.NoOnly = true
	sizes := []uint32{1<<31 - 4096, 1<<31 + 16}
	if tier == "thorough" {
		sizes = append(sizes, 1<<32-65536)
	}
	small := pegen.Build(pegen.Layout{PE32Plus: true, Lfanew: 0x40, Secs: []pegen.Sec{{RawSize: 8}}})
	im, err := refpe.Parse(small)
	if err != nil {
		panic(err)
	}
	for _, secSize := range sizes {
		c.Next()
		c.Tick()
		c.Count("traces", 1)
		c.Count("transitions", 2)
		hdr := append([]byte{}, small[:im.SizeOfHeaders]...)
		h := im.Sections[0].HeaderOff
		binary.LittleEndian.PutUint32(hdr[h+8:], secSize)
		binary.LittleEndian.PutUint32(hdr[h+16:], secSize)
		const trailing = 3
		size := int64(im.SizeOfHeaders) + int64(secSize) + trailing
		padded := (size + 7) &^ 7
		src := &sparseImage{hdr, size}
		// the specification digest, computed independently (headers minus the excluded fields, then zeros)
		hh := sha256.New()
		hh.Write(hdr[:im.ChecksumOff])
		hh.Write(hdr[im.ChecksumOff+4 : im.CertDirOff])
		hh.Write(hdr[im.CertDirOff+8:])
		zero := make([]byte, 1<<20)
		for left := padded - int64(im.SizeOfHeaders); left > 0; {
			n := int64(len(zero))
			if n > left {
				n = left
			}
			hh.Write(zero[:n])
			left -= n
			if left%(256<<20) == 0 {
				c.Tick()
			}
		}
		want := hh.Sum(nil)
		hist := []string{fmt.Sprintf("image: one zero-filled section of %d bytes, file size %d", secSize, size), "Sign(k1)"}
		var v string
		pn := hx.Try(func() {
			p, err := authenticode.Parse(src)
			if err != nil {
				v = "well-formed image rejected: " + err.Error()
				return
			}
			c.Tick()
			if d := p.Hash(crypto.SHA256); !bytes.Equal(d, want) {
				v = "digest before signing differs from the specification digest"
				return
			}
			c.Tick()
			sig, err := p.Sign(memoSignerFor(1), keys.C(1))
			if err != nil {
				v = "Sign fails: " + err.Error()
				return
			}
			c.Tick()
			if sd, perr := refp7.Parse(sig); perr != nil || !bytes.Equal(spcDigest(sd), want) {
				v = "embedded digest differs from the specification digest of the output file"
				return
			}
			if ok, err := p.Verify(keys.C(1)); !ok {
				v = "Verify against the certificate that signed returns false: " + fmt.Sprint(err)
				return
			}
			c.Tick()
			if ok, _ := p.Verify(keys.C(2)); ok {
				v = "Verify against a certificate that did not sign returns true"
				return
			}
			c.Tick()
			// the output, streamed: original bytes except the directory entry, zero padding, table to EOF
			var head bytes.Buffer
			var tail []byte
			total := int64(0)
			buf := make([]byte, 1<<20)
			r := p.Open()
			for {
				n, rerr := r.Read(buf)
				if n > 0 {
					if head.Len() < len(hdr) {
						head.Write(buf[:min(n, len(hdr)-head.Len())])
					}
					total += int64(n)
					tail = append(tail, buf[:n]...)
					if len(tail) > 1<<16 {
						tail = tail[len(tail)-(1<<16):]
					}
				}
				if rerr != nil {
					break
				}
				if total%(512<<20) < int64(len(buf)) {
					c.Tick()
				}
			}
			tableLen := total - padded
			switch {
			case tableLen <= 8 || tableLen%8 != 0 || tableLen > 1<<16:
				v = fmt.Sprintf("output is not the image zero-padded to 8 bytes plus an aligned certificate table (%d bytes for a %d-byte image)", total, size)
			case binary.LittleEndian.Uint32(head.Bytes()[im.CertDirOff:]) != uint32(padded) || binary.LittleEndian.Uint32(head.Bytes()[im.CertDirOff+4:]) != uint32(tableLen):
				v = "certificate-table directory entry does not span the table exactly to end of file"
			case !bytes.Equal(head.Bytes()[:im.CertDirOff], hdr[:im.CertDirOff]) || !bytes.Equal(head.Bytes()[im.CertDirOff+8:], hdr[im.CertDirOff+8:]):
				v = "a byte outside the directory entry changed"
			default:
				tb := tail[int64(len(tail))-tableLen:]
				if int64(binary.LittleEndian.Uint32(tb)) > tableLen || binary.LittleEndian.Uint16(tb[4:]) != 0x0200 || binary.LittleEndian.Uint16(tb[6:]) != 0x0002 {
					v = "table entry is not a revision-2.0 PKCS#7 WIN_CERTIFICATE with a correct length"
				}
			}
		})
		switch {
		case pn != nil:
			c.Outcome("panic")
			c.Violation("C03 signing history ends in "+pn.String(), map[string]any{"history": hist})
		case v != "":
			c.Outcome("state-violation")
			c.Violation("C03 "+v+" [image of 2 GiB and more]", map[string]any{"history": hist})
		default:
			c.Outcome("state-ok")
			c.Count("states", 2)
			c.Nontrivial([]byte(fmt.Sprint("huge", secSize)))
		}
	}
}
