//go:build !verifsched

package props

import (
	"bytes"
	"crypto"
	"encoding/binary"
	"fmt"
	"io"
	"os"
	"strconv"
	"strings"
	"time"

	"github.com/foxboron/go-uefi/authenticode"

	"verif/gen/pegen"
	"verif/internal/hx"
	"verif/ref/refpe"
)

const c01Shards = 48

func init() {
	hx.Register(&hx.Prop{
		ID:    "C01",
		Level: "exploration",
		Rule: "PE layouts from the product {PE32,PE32+} x e_lfanew{0x40,0x48,0x80} x section count 0..n x every file order vs header order x raw size{0,8,13} x gap{0,4} x SizeOfHeaders slack{0,16} x trailing length 0..9 x certificate table{none, one entry, two entries} (+ two layouts with a 40000-byte section, layouts with NumberOfRvaAndSizes {5,6,10,15}, layouts carrying a COFF symbol table, layouts whose section boundary falls on / next to the 32 KiB chunk edge of the hashed stream); every base image also through 5 other io.ReaderAt implementations (ReadAt-only, advanced cursor, open-ended and exact SectionReader, strings.Reader); " +
			"per layout the library digest is compared with the from-the-specification digest of the image zero-padded to 8, then every byte position is changed (XOR 0xFF; thorough also XOR 0x01) and both sides are run again: if the reference still classifies the image as well-formed the digests must agree " +
			"(covered byte => both change identically, excluded byte => both unchanged); plus the certificate-table-stripped twin, the repository's binaries, and the positional reader against slicing for all part-size vectors over {1,2,3} (<=4 parts, optionally followed by one empty part as the parser builds for empty trailing data) x all (offset,length). " +
			"non-trivial = library and reference both produced a digest for the (mutated) image and they were compared; distinct = distinct image bytes",
		Assumptions: []string{"refpe implements steps 1-15 of the Microsoft Authenticode document on raw bytes", "mutants the reference classifies as ill-formed, or that the library refuses to parse, are counted and not judged"},
		Units: func(tier string) []string {
			var u []string
			for i := 0; i < c01Shards; i++ {
				u = append(u, "layouts#"+strconv.Itoa(i))
			}
			return append(u, "fixtures", "multireader")
		},
		Run: c01Run,
		Bound: func(tier string) map[string]any {
			return map[string]any{"max_sections": c01MaxSecs(tier), "flip_masks": c01Masks(tier)}
		},
		Budget: dur(4*time.Minute, 30*time.Minute),
	})
}

func c01MaxSecs(tier string) int {
	if tier == "thorough" {
		return 3
	}
	return 2
}

func c01Masks(tier string) []byte {
	if tier == "thorough" {
		return []byte{0xff, 0x01}
	}
	return []byte{0xff}
}

// c01Layouts enumerates the layout product; f is called with a running index.
func c01Layouts(tier string, f func(i int, l pegen.Layout)) {
	thorough := tier == "thorough"
	i := 0
	lf := []int{0x40, 0x48, 0x80}
	sizes := []int{0, 8, 13}
	gaps := []int{0, 4}
	slacks := []int{0, 16}
	certs := [][]int{nil, {16}, {24, 16}}
	trail := []int{0, 1, 2, 3, 4, 5, 6, 7, 8, 9}
	if !thorough {
		lf = []int{0x40, 0x48}
		trail = []int{0, 1, 5, 8, 9}
	}
	for _, plus := range []bool{true, false} {
		for _, e := range lf {
			for n := 0; n <= c01MaxSecs(tier); n++ {
				for _, order := range pegen.Perms(n) {
					// per-section raw size and gap
					combos := 1
					for k := 0; k < n; k++ {
						combos *= len(sizes) * len(gaps)
					}
					for cb := 0; cb < combos; cb++ {
						secs := make([]pegen.Sec, n)
						x := cb
						skip := false
						for k := 0; k < n; k++ {
							secs[k] = pegen.Sec{RawSize: sizes[x%len(sizes)], Gap: gaps[(x/len(sizes))%len(gaps)]}
							x /= len(sizes) * len(gaps)
							if secs[k].RawSize == 0 && secs[k].Gap != 0 {
								skip = true // a gap before an absent section is the same layout as a gap before the next one
							}
						}
						if skip {
							continue
						}
						for _, sl := range slacks {
							for _, tr := range trail {
								for _, ce := range certs {
									if !thorough && n == 2 && (sl != 0 && tr > 1) {
										continue
									}
									f(i, pegen.Layout{PE32Plus: plus, Lfanew: e, Secs: secs, FileOrder: order, HdrSlack: sl, Trailing: tr, Certs: ce})
									i++
								}
							}
						}
					}
				}
			}
		}
	}
	for _, plus := range []bool{true, false} {
		f(i, pegen.Layout{PE32Plus: plus, Lfanew: 0x80, Secs: []pegen.Sec{{RawSize: 8}, {RawSize: 13, Gap: 4}}, FileOrder: []int{1, 0}, Trailing: 3, Big: true})
		i++
		// fewer data directories than 16 (the certificate entry is index 4, so at least 5), and a COFF symbol table
		for _, nr := range []int{5, 6, 10, 15} {
			for _, ce := range certs {
				for _, tr := range []int{0, 3} {
					f(i, pegen.Layout{PE32Plus: plus, Lfanew: 0x40, Secs: []pegen.Sec{{RawSize: 13}, {RawSize: 8}}, FileOrder: []int{1, 0}, Trailing: tr, Certs: ce, NumRva: nr})
					i++
				}
			}
		}
		// every count of data directories crossed with few/no sections: with five directories and no
		// section the headers end right after the certificate-table entry (an empty hashed range)
		for _, nr := range []int{5, 6, 16} {
			for ns := 0; ns <= 2; ns++ {
				for _, ce := range certs {
					for _, tr := range []int{0, 3, 24} {
						for _, sl := range []int{0, 8} {
							f(i, pegen.Layout{PE32Plus: plus, Lfanew: 0x40, Secs: []pegen.Sec{{RawSize: 13}, {RawSize: 8}}[:ns], Trailing: tr, Certs: ce, NumRva: nr, HdrSlack: sl})
							i++
						}
					}
				}
			}
		}
		// section characteristics are irrelevant to the digest: a section flagged "uninitialised data
		// only" (or with any other flag word) that has raw data is hashed like any other
		for _, fl := range []uint32{0xC0000080, 0x00000080, 0x00000001, 0xFFFFFFFF, 0x02000000, 0x00000A00, 0x42000040} {
			for pos := 0; pos <= 2; pos++ {
				secs := []pegen.Sec{{RawSize: 8}, {RawSize: 13}}
				secs = append(secs[:pos], append([]pegen.Sec{{RawSize: 16, Flags: fl}}, secs[pos:]...)...)
				for _, tr := range []int{0, 3} {
					f(i, pegen.Layout{PE32Plus: plus, Lfanew: 0x40, Secs: secs, Trailing: tr})
					i++
				}
			}
		}
		// holes between sections larger than everything behind them: the specification's sweep from
		// SUM_OF_BYTES_HASHED to the end of the file then covers bytes of the hole
		for _, gap := range []int{24, 40, 100} {
			for _, ce := range certs[:2] {
				f(i, pegen.Layout{PE32Plus: plus, Lfanew: 0x40, Secs: []pegen.Sec{{RawSize: 16}, {RawSize: 8, Gap: gap}}, Certs: ce})
				i++
				f(i, pegen.Layout{PE32Plus: plus, Lfanew: 0x40, Secs: []pegen.Sec{{RawSize: 16, Gap: gap}, {RawSize: 8, Gap: gap}}, Trailing: 2, Certs: ce})
				i++
			}
		}
		// the last section ends the file exactly on (or next to) a multiple of the 32 KiB copy chunk of
		// the hashed stream: no certificate table, no trailing data, so only padding follows
		for _, d := range []int{-8, -1, 0, 1, 8} {
			l := peChunkBoundaryLayout()
			l.PE32Plus = plus
			if !plus {
				l.Secs[0].RawSize += 16
			}
			l.Secs[1].RawSize = 32768 + d
			l.Trailing = 0
			f(i, l)
			i++
		}
		// VirtualSize 0 on sections with raw data, in every subset of three sections
		for m := 1; m < 8; m++ {
			f(i, pegen.Layout{PE32Plus: plus, Lfanew: 0x40, Secs: []pegen.Sec{{RawSize: 13, VirtZero: m&1 != 0}, {RawSize: 8, VirtZero: m&2 != 0}, {RawSize: 16, VirtZero: m&4 != 0}}, Trailing: m % 3})
			i++
		}
		// SizeOfHeaders reaching into the first section (by 1, 8, 13 bytes; as far as the whole section), with
		// trailing data shorter than, equal to and longer than the overlap: a parser may refuse these; if
		// it accepts, every section byte is covered and the digest is the literal one
		for _, ov := range []int{1, 8, 13} {
			for _, tr := range []int{0, ov - 1, ov, ov + 5, 40} {
				if tr < 0 {
					continue
				}
				f(i, pegen.Layout{PE32Plus: plus, Lfanew: 0x40, Secs: []pegen.Sec{{RawSize: 13}, {RawSize: 16}}, Trailing: tr, HdrOver: ov})
				i++
			}
		}
		// a DOS stub of 64 KiB and more: e_lfanew (a 32-bit field) at, just below and above the 16-bit limit
		for _, lf := range []int{0xfff8, 0x10000, 0x10040, 0x23458} {
			for _, ce := range certs[:2] {
				f(i, pegen.Layout{PE32Plus: plus, Lfanew: lf, Secs: []pegen.Sec{{RawSize: 13}, {RawSize: 8}}, Trailing: 3, Certs: ce})
				i++
			}
		}
		// sections without raw data whose (ignored) file pointer is not zero: inside another section,
		// on a section start / end, at and beyond the end of the file
		for _, rel := range []int{1, 4, 8, 9, 21, 22, 100000} {
			for _, pos := range []int{0, 1, 2} {
				secs := []pegen.Sec{{RawSize: 8}, {RawSize: 13}}
				secs = append(secs[:pos], append([]pegen.Sec{{RawSize: 0, EmptyPtrRel: rel}}, secs[pos:]...)...)
				f(i, pegen.Layout{PE32Plus: plus, Lfanew: 0x40, Secs: secs, Trailing: 1})
				i++
			}
		}
		// a hashed-range boundary exactly on io.Copy's 32 KiB chunk edge (and one byte either side)
		for _, d := range []int{-1, 0, 1} {
			for _, ce := range certs {
				l := peChunkBoundaryLayout()
				l.PE32Plus = plus
				if !plus {
					l.Secs[0].RawSize += 16 // PE32 optional header is 16 bytes shorter
				}
				l.Secs[0].RawSize += d
				l.Certs = ce
				f(i, l)
				i++
			}
		}
		for _, ns := range []int{1, 3} {
			for _, ce := range certs {
				f(i, pegen.Layout{PE32Plus: plus, Lfanew: 0x48, Secs: []pegen.Sec{{RawSize: 8}, {RawSize: 13}}, Trailing: 2, Certs: ce, Symbols: ns})
				i++
			}
		}
	}
}

// readerKinds are io.ReaderAt implementations a caller may hand to Parse: the positional
// contract is the same for all of them, so the digest must be too.
var readerKinds = []struct {
	name string
	mk   func(img []byte) io.ReaderAt
}{
	{"ReadAt-only wrapper", func(img []byte) io.ReaderAt { return struct{ io.ReaderAt }{bytes.NewReader(img)} }},
	{"*bytes.Reader whose read cursor was advanced", func(img []byte) io.ReaderAt {
		r := bytes.NewReader(img)
		r.Read(make([]byte, 2))
		return r
	}},
	{"ReaderAt reporting io.EOF together with the last bytes of the file", func(img []byte) io.ReaderAt { return eofWithDataReaderAt(img) }},
	{"open-ended io.SectionReader", func(img []byte) io.ReaderAt { return io.NewSectionReader(bytes.NewReader(img), 0, 1<<62) }},
	{"exact io.SectionReader", func(img []byte) io.ReaderAt { return io.NewSectionReader(bytes.NewReader(img), 0, int64(len(img))) }},
	{"*strings.Reader whose read cursor was advanced", func(img []byte) io.ReaderAt {
		r := strings.NewReader(string(img))
		r.Read(make([]byte, 3))
		return r
	}},
}

// eofWithDataReaderAt uses the freedom the io.ReaderAt contract gives at the end of the data: a read
// that ends exactly at the end of the file returns its bytes and io.EOF in the same call.
type eofWithDataReaderAt []byte

func (b eofWithDataReaderAt) ReadAt(p []byte, off int64) (int, error) {
	if off >= int64(len(b)) {
		return 0, io.EOF
	}
	n := copy(p, b[off:])
	if off+int64(n) == int64(len(b)) {
		return n, io.EOF
	}
	return n, nil
}

func libDigestVia(r io.ReaderAt) (d []byte, perr error, pn *hx.Panic) {
	pn = hx.Try(func() {
		p, err := authenticode.Parse(r)
		if err != nil {
			perr = err
			return
		}
		d = p.Hash(crypto.SHA256)
	})
	return
}

func libDigest(img []byte) (d []byte, perr error, pn *hx.Panic) {
	pn = hx.Try(func() {
		p, err := authenticode.Parse(bytes.NewReader(img))
		if err != nil {
			perr = err
			return
		}
		d = p.Hash(crypto.SHA256)
	})
	return
}

func c01Describe(l pegen.Layout) string {
	f := "PE32"
	if l.PE32Plus {
		f = "PE32+"
	}
	return fmt.Sprintf("%s lfanew=%#x secs=%v order=%v slack=%d trailing=%d certs=%v big=%v numrva=%d symbols=%d", f, l.Lfanew, l.Secs, l.FileOrder, l.HdrSlack, l.Trailing, l.Certs, l.Big, l.NumRva, l.Symbols) + fmt.Sprintf(" hdrover=%d", l.HdrOver)
}

// region names the part of the image a byte offset lies in (for signatures).
func c01Region(im *refpe.Image, off int) string {
	switch {
	case off >= im.ChecksumOff && off < im.ChecksumOff+4:
		return "checksum field"
	case off >= im.CertDirOff && off < im.CertDirOff+8:
		return "certificate-table directory entry"
	case im.CertSize != 0 && off >= int(im.CertOff):
		return "certificate table"
	case off < im.Lfanew:
		return "DOS header/stub"
	case off < im.OptOff:
		return "PE signature/COFF header"
	case off < im.SecTableOff:
		return "optional header"
	case off < im.SecTableOff+40*im.NumSections:
		return "section table"
	case off < im.SizeOfHeaders:
		return "header slack"
	}
	for _, s := range im.Sections {
		if s.RawSize != 0 && off >= int(s.RawPtr) && off < int(s.RawPtr)+int(s.RawSize) {
			return "section data"
		}
	}
	return "gap/trailing data"
}

// c01FieldSweep: whether the next c01Image call also runs the field-value mutants (quick tier: every
// seventh layout and all fixtures; thorough: all)
var c01FieldSweep = true

func c01Image(c *hx.Ctx, img []byte, desc string, masks []byte, flipStride int) {
	want, im, rerr := refpe.Digest(img)
	if rerr != nil {
		c.Note("generator produced an image the reference rejects: %s: %v", desc, rerr)
		return
	}
	// NOTE: the number of Next() calls per image must not depend on any verdict
	// (replays select a case by its index), so no early return below.
	if c.Next() {
		got, perr, pn := libDigest(img)
		switch {
		case pn != nil:
			c.Outcome("panic")
			c.Violation("C01 well-formed image: digest computation ends in "+pn.String(), map[string]any{"layout": desc, "image": hx8(img)})
		case perr != nil && im.Tolerated != "":
			c.Outcome("not-well-formed-image-refused(allowed)")
		case perr != nil:
			c.Outcome("parse-error")
			c.Violation("C01 well-formed image rejected by the parser", map[string]any{"layout": desc, "image": hx8(img), "error": perr.Error()})
		case !bytes.Equal(got, want):
			c.Outcome("digest-mismatch")
			c.Violation("C01 digest of a well-formed image differs from the specification's Authenticode hash ("+c01Class(im)+")", map[string]any{"layout": desc, "image": hx8(img), "library": hx8(got), "specification": hx8(want)})
		default:
			c.Outcome("base-digest-equal")
			c.Nontrivial(img)
		}
	}
	// the same image through other io.ReaderAt implementations
	for _, rk := range readerKinds {
		if !c.Next() {
			continue
		}
		got, perr, pn := libDigestVia(rk.mk(img))
		if pn == nil && perr != nil && im.Tolerated != "" {
			c.Outcome("not-well-formed-image-refused(allowed)")
		} else if pn != nil || perr != nil || !bytes.Equal(got, want) {
			c.Outcome("reader-kind-mismatch")
			c.Violation("C01 digest depends on the io.ReaderAt implementation the image is read through ("+rk.name+")", map[string]any{"layout": desc, "library": hx8(got), "specification": hx8(want), "error": fmt.Sprint(perr, pn)})
		} else {
			c.Outcome("reader-kind-equal")
		}
	}
	// certificate-table-stripped twin: same digest by definition of the exclusions
	if im.CertSize != 0 && c.Next() {
		tw := append([]byte{}, img[:im.CertOff]...)
		for i := 0; i < 8; i++ {
			tw[im.CertDirOff+i] = 0
		}
		tdig, _, terr := refpe.Digest(tw)
		if terr == nil {
			got, perr, pn := libDigest(img)
			if pn == nil && perr == nil && !bytes.Equal(got, tdig) {
				c.Outcome("twin-mismatch")
				c.Violation("C01 digest of a signed image differs from the digest of the same image without certificate table", map[string]any{"layout": desc, "image": hx8(img)})
			} else {
				c.Outcome("twin-equal")
			}
		}
	}
	// every byte position
	mut := append([]byte{}, img...)
	for _, m := range masks {
		for off := 0; off < len(img); off += flipStride {
			if !c.Next() {
				continue
			}
			mut[off] = img[off] ^ m
			rw, rim, rerr := refpe.Digest(mut)
			if rerr != nil {
				c.Outcome("mutant-ill-formed(skipped)")
				mut[off] = img[off]
				continue
			}
			got, perr, pn := libDigest(mut)
			switch {
			case pn != nil:
				c.Outcome("mutant-panic(C13)")
			case perr != nil:
				c.Outcome("mutant-rejected-by-parser(skipped)")
			case !bytes.Equal(got, rw):
				c.Outcome("mutant-digest-mismatch")
				reg := c01Region(rim, off)
				what := "covered byte changed but the digest does not follow the specification"
				if bytes.Equal(rw, want) {
					what = "excluded byte changed and the digest changed"
				} else if bytes.Equal(got, want) {
					what = "covered byte changed and the digest did not change"
				}
				c.Violation(fmt.Sprintf("C01 %s (%s)", what, reg), map[string]any{"layout": desc, "image": hx8(mut), "offset": off, "mask": m, "library": hx8(got), "specification": hx8(rw)})
			default:
				if bytes.Equal(rw, want) {
					c.Outcome("mutant-excluded-unchanged")
				} else {
					c.Outcome("mutant-covered-changed")
				}
				c.Nontrivial(mut)
			}
			mut[off] = img[off]
		}
	}
	if c01FieldSweep {
		c01FieldValues(c, img, desc, want, im)
	}
}

// c01FieldValues: every 16-bit and 32-bit aligned field position of the headers set to zero and to all
// ones (single-byte flips never produce "this field is exactly 0", which is what code that consults a
// field the algorithm does not read — VirtualSize, VirtualAddress, relocation pointers — branches on).
func c01FieldValues(c *hx.Ctx, img []byte, desc string, want []byte, im *refpe.Image) {
	mut := append([]byte{}, img...)
	for _, w := range []int{2, 4} {
		for off := 0; off+w <= im.SizeOfHeaders && off+w <= len(img); off += w {
			for _, v := range []byte{0x00, 0xff} {
				if !c.Next() {
					continue
				}
				same := true
				for i := 0; i < w; i++ {
					if img[off+i] != v {
						same = false
					}
					mut[off+i] = v
				}
				if !same {
					rw, rim, rerr := refpe.Digest(mut)
					if rerr != nil {
						c.Outcome("mutant-ill-formed(skipped)")
					} else if got, perr, pn := libDigest(mut); pn != nil {
						c.Outcome("mutant-panic(C13)")
					} else if perr != nil {
						c.Outcome("mutant-rejected-by-parser(skipped)")
					} else if !bytes.Equal(got, rw) {
						c.Outcome("mutant-digest-mismatch")
						c.Violation(fmt.Sprintf("C01 header field set to %#x: the digest does not follow the specification (%s)", v, c01Region(rim, off)), map[string]any{"layout": desc, "image": hx8(mut), "offset": off, "width": w, "library": hx8(got), "specification": hx8(rw)})
					} else {
						c.Outcome("mutant-field-value-equal")
						c.Nontrivial(mut)
					}
				}
				copy(mut[off:off+w], img[off:off+w])
			}
		}
	}
	_ = want
}

func c01Class(im *refpe.Image) string {
	f := "PE32"
	if im.PE32Plus {
		f = "PE32+"
	}
	sorted := true
	prev := uint32(0)
	for _, s := range im.Sections {
		if s.RawSize == 0 {
			continue
		}
		if s.RawPtr < prev {
			sorted = false
		}
		prev = s.RawPtr
	}
	o := "sections in file order"
	if !sorted {
		o = "sections out of file order"
	}
	c := "unsigned"
	if im.CertSize != 0 {
		c = "with certificate table"
	}
	return fmt.Sprintf("%s, %d sections, %s, %s, size mod 8 = %d", f, im.NumSections, o, c, im.Size%8)
}

func c01Run(c *hx.Ctx, tier, unit string) {
	masks := c01Masks(tier)
	switch {
	case strings.HasPrefix(unit, "layouts#"):
		shard, _ := strconv.Atoi(strings.TrimPrefix(unit, "layouts#"))
		c01Layouts(tier, func(i int, l pegen.Layout) {
			if i%c01Shards != shard || c.Expired() {
				return
			}
			img := pegen.Build(l)
			if i%3000 == shard {
				c.Sample(map[string]any{"layout": c01Describe(l), "image_len": len(img)})
			}
			c.Count("layouts", 1)
			stride := 1
			if l.Big || len(img) > 20000 {
				stride = 97
			}
			c01FieldSweep = tier == "thorough" || (i/c01Shards)%7 == 0 || len(l.Secs) >= 3
			c01Image(c, img, c01Describe(l), masks, stride)
			c01FieldSweep = true
		})
	case unit == "fixtures":
		for _, f := range []string{"/repo/authenticode/testdata/test.pecoff", "/repo/authenticode/testdata/test.pecoff.signed", "/repo/tests/data/binary/HelloWorld.efi",
			"/repo/tests/data/binary/HelloWorld.efi.signed", "/repo/tests/data/binary/linuxx64.efi.stub", "/repo/tests/data/binary/test.pecoff", "/repo/tests/binaries/HelloWorld.efi"} {
			b, err := os.ReadFile(f)
			if err != nil {
				continue
			}
			if _, _, rerr := refpe.Digest(b); rerr != nil {
				c.Note("fixture %s outside the reference's well-formedness predicate: %v", f, rerr)
				continue
			}
			c.Sample(map[string]any{"fixture": f, "len": len(b)})
			c.Count("fixtures", 1)
			stride := len(b)/1500 + 1
			c01Image(c, b, f, []byte{0xff}, stride)
		}
	case unit == "multireader":
		// all part-size vectors over {0,1,2,3} with <=4 parts x all (offset, length) the library can
		// issue: the reader is only ever used through io.NewSectionReader(m, 0, m.Size()), which
		// clips every read to [0, Size) and never passes an empty buffer on from io.Copy
		var rec func(parts [][]byte, n int)
		next := byte(1)
		rec = func(parts [][]byte, n int) {
			var flat []byte
			for _, p := range parts {
				flat = append(flat, p...)
			}
			m := authenticode.VerifMulti(parts...)
			for off := 0; off < len(flat); off++ {
				for ln := 1; ln <= len(flat)-off; ln++ {
					if !c.Next() {
						continue
					}
					buf := make([]byte, ln)
					var rn int
					var rerr error
					if pn := hx.Try(func() { rn, rerr = m.ReadAt(buf, int64(off)) }); pn != nil {
						c.Violation("C01 positional reader ends in "+pn.String(), map[string]any{"parts": fmt.Sprint(parts), "off": off, "len": ln})
						continue
					}
					avail := len(flat) - off
					if avail < 0 {
						avail = 0
					}
					wn := ln
					if wn > avail {
						wn = avail
					}
					lo := off
					if lo > len(flat) {
						lo = len(flat)
					}
					if rn != wn || !bytes.Equal(buf[:rn], flat[lo:lo+wn]) || (wn < ln && rerr == nil) || (wn == ln && rerr != nil && !(rerr == io.EOF && off+ln == len(flat) && ln > 0)) || m.Size() != int64(len(flat)) {
						c.Outcome("multireader-mismatch")
						c.Violation("C01 positional reader over the concatenated ranges differs from slicing the concatenation", map[string]any{"parts": fmt.Sprint(parts), "off": off, "len": ln, "n": rn, "err": fmt.Sprint(rerr), "got": hx8(buf[:rn])})
						continue
					}
					c.Outcome("multireader-ok")
					c.Nontrivial([]byte(fmt.Sprint(parts, off, ln)))
				}
			}
			if n == 4 {
				// zero-size parts are demanded in every position: Parse builds an empty range in the
				// middle when SizeOfHeaders ends right after the certificate-table directory entry
				// (five data directories, no sections), and an empty last one for no trailing data
				return
			}
			for sz := 0; sz <= 3; sz++ {
				p := make([]byte, sz)
				for i := range p {
					p[i] = next
					next = next*7 + 3
				}
				rec(append(parts, p), n+1)
			}
		}
		rec(nil, 0)
	}
	_ = binary.LittleEndian
}
