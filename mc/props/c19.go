//go:build verifsched

package props

import (
	"crypto"
	"crypto/rand"
	"crypto/sha256"
	_ "crypto/sha512"
	"crypto/x509"
	"crypto/x509/pkix"
	"encoding/json"
	"fmt"
	"math/big"
	"os"
	"os/exec"
	"runtime/debug"
	"sort"
	"strconv"
	"strings"
	"sync/atomic"
	"time"

	"github.com/foxboron/go-uefi/authenticode"
	"github.com/foxboron/go-uefi/efi/signature"
	"github.com/foxboron/go-uefi/efivar"

	"verif/gen/pegen"
	"verif/internal/hx"
	"verif/keys"
	"verif/ref/refesl"
	"verif/ref/refpe"
	"verif/shim/deepdump"
	"verif/shim/sched"
	bytes "verif/shim/vbytes"
	io "verif/shim/vio"
	"verif/shim/vtime"
)

// ---- objects and their read-only operations ----

type c19Op struct {
	name string
	run  func(obj any) string
}

type c19Subject struct {
	name  string
	build func() any
	dump  func(obj any) string
	ops   []c19Op
}

// sum summarises a result and then overwrites it (and its spare capacity): what an operation
// returns belongs to the caller; if it is the object's own storage, the next call shows it.
// c19ShortLived is the certificate of the "expires while the clock advances" subject (the bytes
// differ from build to build only in nothing: RSA PKCS#1 v1.5 and the fixed instant make it stable).
var c19ShortLived atomic.Pointer[x509.Certificate]

func sum(b []byte) string {
	h := sha256.Sum256(b)
	s := fmt.Sprintf("len=%d sha256=%x", len(b), h[:12])
	b = b[:cap(b)]
	for i := range b {
		b[i] ^= 0xa5
	}
	return s
}

func c19Image() []byte {
	return pegen.Build(pegen.Layout{PE32Plus: true, Lfanew: 0x40, Secs: []pegen.Sec{{RawSize: 8}, {RawSize: 13}}, Trailing: 3})
}

var c19Signed []byte

// c19LargeImage is larger than io.Copy's 32 KiB chunk, so that streaming it takes
// several positional reads (state kept between reads shows only here).
func c19LargeImage() []byte {
	return pegen.Build(pegen.Layout{PE32Plus: true, Lfanew: 0x80, Secs: []pegen.Sec{{RawSize: 8}, {RawSize: 13}}, Trailing: 70001, Big: true})
}

func c19Subjects() []c19Subject {
	if c19Signed == nil {
		p, err := authenticode.Parse(bytes.NewReader(c19Image()))
		if err != nil {
			panic(err)
		}
		if _, err := p.Sign(keys.K(1), keys.C(1)); err != nil {
			panic(err)
		}
		if _, err := p.Sign(keys.K(2), keys.C(2)); err != nil {
			panic(err)
		}
		c19Signed = p.Bytes()
	}
	imgOps := []c19Op{
		{"Hash", func(o any) string { return sum(o.(*authenticode.PECOFFBinary).Hash(crypto.SHA256)) }},
		{"Hash(SHA-512)", func(o any) string { return sum(o.(*authenticode.PECOFFBinary).Hash(crypto.SHA512)) }},
		{"Bytes", func(o any) string { return sum(o.(*authenticode.PECOFFBinary).Bytes()) }},
		{"Open+ReadAll", func(o any) string {
			b, err := io.ReadAll(o.(*authenticode.PECOFFBinary).Open())
			return sum(b) + fmt.Sprint(err)
		}},
		{"Open+Read7", func(o any) string {
			b := make([]byte, 7)
			n, err := io.ReadFull(o.(*authenticode.PECOFFBinary).Open(), b)
			return fmt.Sprintf("%d %x %v", n, b, err)
		}},
		{"Signatures", func(o any) string {
			s, err := o.(*authenticode.PECOFFBinary).Signatures()
			out := fmt.Sprintf("n=%d err=%v", len(s), err)
			for _, x := range s {
				out += " " + sum(x.Certificate)
			}
			return out
		}},
		{"Verify(c1)", func(o any) string {
			ok, err := o.(*authenticode.PECOFFBinary).Verify(keys.C(1))
			return fmt.Sprint(ok, err)
		}},
		{"Verify(c2)", func(o any) string {
			ok, err := o.(*authenticode.PECOFFBinary).Verify(keys.C(2))
			return fmt.Sprint(ok, err)
		}},
		{"Verify(c3)", func(o any) string {
			ok, err := o.(*authenticode.PECOFFBinary).Verify(keys.C(3))
			return fmt.Sprint(ok, err)
		}},
	}
	dbBytes := refesl.Encode([]refesl.List{
		refesl.Mk(refesl.X509, uint32(16+len(keys.C(1).Raw)), refesl.Entry{Owner: ownerA, Data: keys.C(1).Raw}),
		refesl.Mk(refesl.SHA256, 48, refesl.Entry{Owner: ownerA, Data: fill(32, 1)}, refesl.Entry{Owner: ownerB, Data: fill(32, 2)}),
		// ten hashes in descending (enrolment, not sorted) order
		refesl.Mk(refesl.SHA256, 48, c19BigList()...)})
	h1 := signature.SignatureData{Owner: unwire(ownerA), Data: fill(32, 1)}
	dbOps := []c19Op{
		{"Bytes", func(o any) string { return sum(o.(*signature.SignatureDatabase).Bytes()) }},
		{"Marshal", func(o any) string {
			var b bytes.Buffer
			o.(*signature.SignatureDatabase).Marshal(&b)
			return sum(b.Bytes())
		}},
		{"SigDataExists", func(o any) string {
			return fmt.Sprint(o.(*signature.SignatureDatabase).SigDataExists(signature.CERT_SHA256_GUID, &h1))
		}},
		{"Exists", func(o any) string {
			l := signature.NewSignatureList(signature.CERT_SHA256_GUID)
			l.AppendBytes(h1.Owner, h1.Data)
			return fmt.Sprint(o.(*signature.SignatureDatabase).Exists(signature.CERT_SHA256_GUID, l))
		}},
		{"Exists(10 entries)", func(o any) string {
			l := signature.NewSignatureList(signature.CERT_SHA256_GUID)
			for _, e := range c19BigList() {
				l.AppendBytes(unwire(e.Owner), e.Data)
			}
			before := sum(l.Bytes())
			r := fmt.Sprint(o.(*signature.SignatureDatabase).Exists(signature.CERT_SHA256_GUID, l))
			return r + " query list " + fmt.Sprint(before == sum(l.Bytes()))
		}},
		{"BytesExists", func(o any) string {
			return fmt.Sprint(o.(*signature.SignatureDatabase).BytesExists(signature.CERT_X509_GUID, unwire(ownerA), keys.C(1).Raw))
		}},
	}
	updOps := []c19Op{
		{"Marshal", func(o any) string {
			var b bytes.Buffer
			o.(efivar.Marshallable).Marshal(&b)
			return sum(b.Bytes())
		}},
		{"Bytes", func(o any) string { return sum(o.(efivar.Marshallable).Bytes()) }},
	}
	descOps := []c19Op{
		{"Marshal", func(o any) string {
			var b bytes.Buffer
			o.(*signature.EFIVariableAuthentication2).Marshal(&b)
			return sum(b.Bytes())
		}},
		{"Verify(c1)", func(o any) string {
			ok, err := o.(*signature.EFIVariableAuthentication2).Verify(keys.C(1))
			return fmt.Sprint(ok, err)
		}},
		{"Verify(c3)", func(o any) string {
			ok, err := o.(*signature.EFIVariableAuthentication2).Verify(keys.C(3))
			return fmt.Sprint(ok, err)
		}},
	}
	return []c19Subject{
		{"authentication descriptor", func() any {
			db, _ := signature.ReadSignatureDatabase(bytes.NewReader(dbBytes))
			a, _, err := signature.SignEFIVariable(efivar.Db, &db, keys.K(1), keys.C(1))
			if err != nil {
				panic(err)
			}
			return a
		}, func(o any) string { return deepdump.Dump(o) }, descOps},
		// a descriptor as decoded from a file whose timestamp field is all zero, under a clock that
		// advances with every reading: a read-only operation that consults the clock (to "fill in" a
		// missing time, say) gives another result on every call
		// a descriptor signed by a certificate whose validity period ends two seconds into the advancing
		// clock: verification is a statement about the bytes, not about the time of the call
		{"authentication descriptor signed by a certificate that expires while the clock advances", func() any {
			t0 := time.Date(2024, 5, 6, 7, 8, 9, 0, time.UTC)
			vtime.Set(t0)
			tmpl := &x509.Certificate{SerialNumber: big.NewInt(0x7601), Subject: pkix.Name{CommonName: "verif short-lived"}, NotBefore: t0.Add(-time.Hour), NotAfter: t0.Add(2 * time.Second),
				KeyUsage: x509.KeyUsageDigitalSignature, BasicConstraintsValid: true, SignatureAlgorithm: x509.SHA256WithRSA}
			cd, err := x509.CreateCertificate(rand.Reader, tmpl, tmpl, &keys.K(3).PublicKey, keys.K(3))
			if err != nil {
				panic(err)
			}
			sc, _ := x509.ParseCertificate(cd)
			c19ShortLived.Store(sc)
			db, _ := signature.ReadSignatureDatabase(bytes.NewReader(dbBytes))
			a, _, err := signature.SignEFIVariable(efivar.Db, &db, keys.K(3), sc)
			if err != nil {
				panic(err)
			}
			vtime.SetStepping(t0, time.Second)
			return a
		}, func(o any) string { return deepdump.Dump(o) }, append(append([]c19Op{}, descOps...), c19Op{"Verify(the short-lived certificate)", func(o any) string {
			ok, err := o.(*signature.EFIVariableAuthentication2).Verify(c19ShortLived.Load())
			return fmt.Sprint(ok, err)
		}})},
		// an image whose certificate table holds entries that fail for different reasons (an unparsable
		// blob, a signature over another image): the error of a failed verification is part of the result
		{"image with an unparsable and a stale table entry", func() any {
			other := pegen.Build(pegen.Layout{PE32Plus: true, Lfanew: 0x40, Secs: []pegen.Sec{{RawSize: 21}}, Trailing: 2})
			op, err := authenticode.Parse(bytes.NewReader(other))
			if err != nil {
				panic(err)
			}
			stale, err := op.Sign(keys.K(1), keys.C(1))
			if err != nil {
				panic(err)
			}
			img, err := refpe.Attach(c19Image(), fill(60, 0x37), stale, fill(9, 0x30))
			if err != nil {
				panic(err)
			}
			p, err := authenticode.Parse(bytes.NewReader(img))
			if err != nil {
				panic(err)
			}
			return p
		}, func(o any) string { return authenticode.VerifDump(o.(*authenticode.PECOFFBinary)) }, imgOps},
		{"authentication descriptor decoded with an all-zero timestamp, advancing clock", func() any {
			vtime.Set(time.Date(2024, 5, 6, 7, 8, 9, 0, time.UTC))
			db, _ := signature.ReadSignatureDatabase(bytes.NewReader(dbBytes))
			a, _, err := signature.SignEFIVariable(efivar.Db, &db, keys.K(1), keys.C(1))
			if err != nil {
				panic(err)
			}
			var b bytes.Buffer
			a.Marshal(&b)
			enc := b.Bytes()
			for i := 0; i < 16; i++ {
				enc[i] = 0
			}
			d, err := signature.ReadEFIVariableAuthencation2(bytes.NewReader(enc))
			if err != nil {
				panic(err)
			}
			vtime.SetStepping(time.Date(2024, 5, 6, 7, 8, 9, 0, time.UTC), time.Second)
			return d
		}, func(o any) string { return deepdump.Dump(o) }, descOps},
		{"signed image", func() any {
			p, err := authenticode.Parse(bytes.NewReader(c19Signed))
			if err != nil {
				panic(err)
			}
			return p
		}, func(o any) string { return authenticode.VerifDump(o.(*authenticode.PECOFFBinary)) }, imgOps},
		{"unsigned image", func() any {
			p, err := authenticode.Parse(bytes.NewReader(c19Image()))
			if err != nil {
				panic(err)
			}
			return p
		}, func(o any) string { return authenticode.VerifDump(o.(*authenticode.PECOFFBinary)) }, imgOps[:4]},
		{"large unsigned image (110 KB)", func() any {
			p, err := authenticode.Parse(bytes.NewReader(c19LargeImage()))
			if err != nil {
				panic(err)
			}
			return p
		}, func(o any) string { return authenticode.VerifDump(o.(*authenticode.PECOFFBinary)) }, imgOps[:3]},
		// a database that holds lists without entries between others (what removing the last entry of a
		// list through the list itself leaves): encoding is read-only whatever the lists hold
		{"signature database with empty lists between the others", func() any {
			db, err := signature.ReadSignatureDatabase(bytes.NewReader(dbBytes))
			if err != nil {
				panic(err)
			}
			out := signature.SignatureDatabase{signature.NewSignatureList(signature.CERT_SHA256_GUID), db[0], signature.NewSignatureList(signature.CERT_X509_GUID), db[1], db[2]}
			return &out
		}, func(o any) string { return deepdump.Dump(o) }, dbOps},
		// an image whose table holds, in front of a valid signature, one whose SpcIndirectDataContent names
		// another data type (the neighbouring object identifier ...2.1.21)
		{"image with a signature of another Spc data type in front of a valid one", func() any {
			p0, err := authenticode.Parse(bytes.NewReader(c19Image()))
			if err != nil {
				panic(err)
			}
			good, err := p0.Sign(keys.K(1), keys.C(1))
			if err != nil {
				panic(err)
			}
			odd := bytes.Replace(good, []byte{0x2b, 0x06, 0x01, 0x04, 0x01, 0x82, 0x37, 0x02, 0x01, 0x0f}, []byte{0x2b, 0x06, 0x01, 0x04, 0x01, 0x82, 0x37, 0x02, 0x01, 0x15}, 1)
			img, err := refpe.Attach(c19Image(), odd, good)
			if err != nil {
				panic(err)
			}
			p, err := authenticode.Parse(bytes.NewReader(img))
			if err != nil {
				panic(err)
			}
			return p
		}, func(o any) string { return authenticode.VerifDump(o.(*authenticode.PECOFFBinary)) }, imgOps},
		{"signature database", func() any {
			db, err := signature.ReadSignatureDatabase(bytes.NewReader(dbBytes))
			if err != nil {
				panic(err)
			}
			return &db
		}, func(o any) string { return deepdump.Dump(o) }, dbOps},
		// a database holding lists a caller put together by hand: one whose ListSize field was never
		// brought up to date, one with a signature header. Encoding is read-only whatever the fields say.
		{"signature database with hand-built lists (PEM text as X.509 data, stale ListSize, signature header)", func() any {
			db, err := signature.ReadSignatureDatabase(bytes.NewReader(dbBytes))
			if err != nil {
				panic(err)
			}
			pemData := keys.CertPEM(keys.C(2))
			pemList := &signature.SignatureList{SignatureType: signature.CERT_X509_GUID, Size: uint32(16 + len(pemData)), ListSize: uint32(28 + 16 + len(pemData)), SignatureHeader: []byte{},
				Signatures: []signature.SignatureData{{Owner: unwire(ownerB), Data: pemData}}}
			db = append(db, pemList)
			stale := &signature.SignatureList{SignatureType: signature.CERT_SHA256_GUID, ListSize: 28, Size: 48, SignatureHeader: []byte{},
				Signatures: []signature.SignatureData{{Owner: unwire(ownerA), Data: fill(32, 0x71)}, {Owner: unwire(ownerB), Data: fill(32, 0x72)}}}
			hdr := &signature.SignatureList{SignatureType: signature.CERT_RSA2048_GUID, HeaderSize: 4, SignatureHeader: []byte{1, 2, 3, 4}, Size: 16 + 256, ListSize: 28 + 4 + 16 + 256,
				Signatures: []signature.SignatureData{{Owner: unwire(ownerA), Data: fill(256, 0x73)}}}
			db = append(db, stale, hdr)
			return &db
		}, func(o any) string { return deepdump.Dump(o) }, dbOps[:4]},
		{"signed-update value", func() any {
			db, _ := signature.ReadSignatureDatabase(bytes.NewReader(dbBytes))
			_, m, err := signature.SignEFIVariable(efivar.Db, &db, keys.K(1), keys.C(1))
			if err != nil {
				panic(err)
			}
			return m
		}, func(o any) string { return deepdump.Dump(o) }, updOps},
	}
}

func c19BigList() []refesl.Entry {
	var es []refesl.Entry
	for i := 10; i >= 1; i-- {
		o := ownerA
		if i%3 == 0 {
			o = ownerB
		}
		es = append(es, refesl.Entry{Owner: o, Data: fill(32, byte(0x10*i))})
	}
	return es
}

// ---- cooperative scheduler + preemption-bounded DFS ----

type c19Thread struct {
	id      int
	ops     []int
	resume  chan struct{}
	results []string
	done    bool
	// cond: the thread is parked in a lock / Once / WaitGroup of the sync shim until cond() holds
	cond func() bool
}

type c19Point struct {
	enabled             []int // canonical order: running thread first if still enabled, then ascending ids
	runningStillEnabled bool
	chosen              int
}

type c19Exec struct {
	choices  []int
	points   []c19Point
	results  [][]string
	accesses int
	writes   []string // write-kind accesses to shared objects
	blocked  bool
	deadlock string // every unfinished thread is parked on a condition that does not hold
	panics   []string
	// diverged: replaying the recorded prefix met a scheduling point with fewer enabled threads than
	// recorded: the code under test does not issue the same sequence of shared accesses when it is
	// run again under the same schedule (map order, clock, randomness inside the library)
	diverged bool
}

type c19Event struct {
	thread int
	done   bool
}

// c19RunOnce executes the harness once following prefix, then choice 0.
func c19RunOnce(sub *c19Subject, plan [][]int, prefix []int) *c19Exec {
	obj := sub.build()
	x := &c19Exec{}
	threads := make([]*c19Thread, len(plan))
	events := make(chan c19Event)
	sched.Epoch++
	sched.Active = true
	sched.Cur = 0
	for i := range plan {
		threads[i] = &c19Thread{id: i + 1, ops: plan[i], resume: make(chan struct{})}
	}
	byID := func(id int) *c19Thread { return threads[id-1] }
	sched.Record = func(a sched.Access) {
		if a.Shared {
			x.accesses++
			if a.Kind == sched.Write {
				x.writes = append(x.writes, fmt.Sprintf("thread %d: %s on shared object #%d", a.Thread, a.What, a.Obj))
			}
		}
	}
	sched.Yield = func(a sched.Access) {
		t := byID(sched.Cur)
		events <- c19Event{thread: t.id}
		<-t.resume
		sched.Cur = t.id
	}
	sched.Wait = func(cond func() bool, what string) {
		t := byID(sched.Cur)
		t.cond = cond
		events <- c19Event{thread: t.id}
		<-t.resume
		t.cond = nil
		sched.Cur = t.id
	}
	for _, t := range threads {
		t := t
		go func() {
			<-t.resume
			sched.Cur = t.id
			for _, oi := range t.ops {
				var r string
				if pn := hx.Try(func() { r = sub.ops[oi].run(obj) }); pn != nil {
					r = "PANIC " + pn.String()
					x.panics = append(x.panics, r)
				}
				t.results = append(t.results, r)
			}
			t.done = true
			events <- c19Event{thread: t.id, done: true}
		}()
	}
	running := 0
	watchdog := time.NewTimer(time.Hour)
	defer watchdog.Stop()
	for {
		var en []int
		runnable := func(t *c19Thread) bool { return !t.done && (t.cond == nil || t.cond()) }
		if running != 0 && runnable(byID(running)) {
			en = append(en, running)
		}
		unfinished := 0
		for _, t := range threads {
			if !t.done {
				unfinished++
			}
			if runnable(t) && t.id != running {
				en = append(en, t.id)
			}
		}
		if len(en) == 0 {
			if unfinished > 0 {
				x.deadlock = fmt.Sprintf("%d unfinished threads all wait on locks / Once / WaitGroup", unfinished)
				sched.Active = false
				return x
			}
			break
		}
		pt := c19Point{enabled: en, runningStillEnabled: running != 0 && runnable(byID(running))}
		ch := 0
		if len(x.points) < len(prefix) {
			ch = prefix[len(x.points)]
			if ch >= len(en) {
				x.diverged = true
				ch = 0
			}
		}
		pt.chosen = ch
		x.points = append(x.points, pt)
		x.choices = append(x.choices, ch)
		running = en[ch]
		byID(running).resume <- struct{}{}
		if !watchdog.Stop() {
			select {
			case <-watchdog.C:
			default:
			}
		}
		watchdog.Reset(120 * time.Second)
		select {
		case <-events:
		case <-watchdog.C:
			x.blocked = true
			sched.Active = false
			return x
		}
	}
	sched.Active = false
	sched.Yield = nil
	sched.Wait = nil
	sched.Record = nil
	sched.Cur = 0
	for _, t := range threads {
		x.results = append(x.results, t.results)
	}
	return x
}

func (x *c19Exec) preemptionsBefore(i int) int {
	n := 0
	for j := 0; j < i; j++ {
		if x.points[j].runningStillEnabled && x.points[j].chosen != 0 {
			n++
		}
	}
	return n
}

type c19Explorer struct {
	c        *hx.Ctx
	sub      *c19Subject
	plan     [][]int
	ref      [][]string
	bound    int
	execs    int
	maxExecs int
	capped   bool
	outcomes map[string]bool
	// the most recent complete schedule (choice indices and the thread picked at each point)
	lastSchedule []int
	lastThreads  []int
}

func (e *c19Explorer) planName() string {
	var parts []string
	for i, ops := range e.plan {
		var n []string
		for _, oi := range ops {
			n = append(n, e.sub.ops[oi].name)
		}
		parts = append(parts, fmt.Sprintf("T%d:[%s]", i+1, strings.Join(n, ",")))
	}
	return e.sub.name + " " + strings.Join(parts, " ")
}

func (e *c19Explorer) explore(prefix []int) {
	if e.execs >= e.maxExecs || (e.execs%64 == 63 && e.c.Expired()) {
		// execution cap or the unit's time budget: lower bounds were completed, this one is reported as capped
		e.capped = true
		return
	}
	e.c.Next()
	x := c19RunOnce(e.sub, e.plan, prefix)
	e.execs++
	e.c.Count("transitions", uint64(len(x.points)))
	e.c.Count("traces", 1)
	e.check(x)
	if x.diverged {
		// results of this execution were judged like any other; the subtree below a prefix that does
		// not replay cannot be enumerated, so the harness is reported as not exhaustively explored
		e.c.Outcome("schedule-did-not-replay(code under test is not deterministic under a fixed schedule)")
		if !e.capped {
			e.c.Note("%s: an execution did not replay under its own schedule prefix; this plan is reported as not exhaustively explored", e.planName())
		}
		e.capped = true
		return
	}
	for i := len(prefix); i < len(x.points); i++ {
		p := x.points[i]
		for alt := 1; alt < len(p.enabled); alt++ {
			cost := x.preemptionsBefore(i)
			if p.runningStillEnabled {
				cost++
			}
			if cost > e.bound {
				continue
			}
			e.explore(append(append([]int{}, x.choices[:i]...), alt))
		}
	}
}

func (e *c19Explorer) check(x *c19Exec) {
	c := e.c
	if x.blocked {
		c.Outcome("thread-blocked-outside-scheduler(not explorable)")
		c.Note("%s: a thread blocked outside the cooperative scheduler; this plan is reported as not exhaustively explored", e.planName())
		e.capped = true
		return
	}
	if x.deadlock != "" {
		c.Outcome("deadlock")
		c.Violation("C19 concurrent calls deadlock: "+x.deadlock, map[string]any{"harness": e.planName(), "schedule": x.choices})
		return
	}
	key := fmt.Sprint(x.results)
	e.outcomes[key] = true
	e.lastSchedule = x.choices
	e.lastThreads = e.lastThreads[:0]
	for _, p := range x.points {
		e.lastThreads = append(e.lastThreads, p.enabled[p.chosen])
	}
	c.Max("max:scheduling_points_per_execution", uint64(len(x.points)))
	c.Count("shared_accesses", uint64(x.accesses))
	detail := func() map[string]any {
		return map[string]any{"harness": e.planName(), "schedule": x.choices, "results": x.results, "sequential_results": e.ref, "shared_write_accesses": x.writes}
	}
	if len(x.panics) > 0 {
		c.Outcome("panic")
		c.Violation("C19 concurrent "+e.sub.name+": an operation panics under an interleaving", detail())
		return
	}
	for ti := range e.ref {
		for k := range e.ref[ti] {
			if ti < len(x.results) && k < len(x.results[ti]) && x.results[ti][k] != e.ref[ti][k] {
				c.Outcome("result-differs")
				c.Violation(fmt.Sprintf("C19 concurrent %s: result of %s differs from its sequential result under an interleaving", e.sub.name, e.sub.ops[e.plan[ti][k]].name), detail())
				return
			}
		}
	}
	if len(x.writes) > 0 {
		c.Outcome("shared-write-observed(no divergence in this schedule)")
	} else {
		c.Outcome("execution-ok")
	}
	c.Nontrivial([]byte(e.planName()), []byte(fmt.Sprint(x.choices)))
}

// ---- units ----

func init() {
	hx.Register(&hx.Prop{
		ID:    "C19",
		Level: "model_checking",
		Rule: "three sub-checks on a parsed image (signed twice, and unsigned), a decoded signature database, a signed-update value and its authentication descriptor (Marshal / Verify), all built through the library in a build where every io.SectionReader / bytes.Buffer / bytes.Reader operation of go-uefi is redirected to instrumented wrappers (import rewrite): " +
			"(1) sequential repetition: all sequences of read-only operations up to length 4; every result must equal the result of the same call on a fresh object; the object's complete private state (cursors included, white-box dump) is compared before and after every call: a change of exported fields, or private state that changes again when the call is repeated, is a violation (a one-time private fill, e.g. a memo, is counted and allowed); every operation 64 times on one object; after every read-only prefix of length <= 2 a modifying call (AppendSignature / Sign; Append / Remove) followed by all read-only calls must give what they give on an object never looked at; " +
			"(2) interleavings: cooperative scheduler with a scheduling point at every access to an object shared between threads (created before the threads started, or by another thread) and at every lock / Once / WaitGroup operation of the sync shim (a goroutine that would block is parked with its condition; only parked goroutines left = deadlock, a violation); harnesses = every multiset of operations for 2 threads x 1 operation, 2 threads x 2 operations, 3 threads x 1 operation on one shared object; iterative preemption bounding (stateless DFS, executions run to completion, fresh object per execution); " +
			"every execution's results must equal the sequential reference; (3) a free-running -race build of the same operations with 16 goroutines (separate binary; a detector report is a violation, silence is not counted as exhaustive evidence)",
		Assumptions: []string{"scheduling granularity = operations on shimmed cursor/buffer objects and sync primitives; plain field accesses and sync/atomic operations are only seen by the -race pass", "no separate model: every schedule is executed on the real code (traces_validated_against_impl = executions)"},
		Units:       c19Units,
		Run:         c19Run,
		Bound: func(tier string) map[string]any {
			return map[string]any{"preemption_bound_2_threads": c19Bound(tier, 2), "preemption_bound_3_threads": c19Bound(tier, 3), "sequence_length": 4, "max_executions_per_harness": c19MaxExecs(tier)}
		},
		Budget: dur(6*time.Minute, 45*time.Minute),
	})
}

func c19Bound(tier string, threads int) int {
	if tier == "thorough" {
		if threads == 2 {
			return 3
		}
		return 2
	}
	if threads == 2 {
		return 2
	}
	return 1
}

func c19MaxExecs(tier string) int {
	if tier == "thorough" {
		return 200000
	}
	return 20000
}

// c19Mutators: modifying operations by the kind of object (deterministic: memoised signatures).
func c19Mutators(o any) []c19Op {
	switch o.(type) {
	case *authenticode.PECOFFBinary:
		return []c19Op{
			{"AppendSignature(a signature by k3 made on a copy)", func(o any) string {
				p := o.(*authenticode.PECOFFBinary)
				cp, err := authenticode.Parse(bytes.NewReader(p.Bytes()))
				if err != nil {
					return "copy: " + err.Error()
				}
				sig, err := cp.Sign(keys.K(3), keys.C(3))
				if err != nil {
					return "sign: " + err.Error()
				}
				return fmt.Sprint(p.AppendSignature(sig))
			}},
			{"Sign(k3)", func(o any) string {
				_, err := o.(*authenticode.PECOFFBinary).Sign(keys.K(3), keys.C(3))
				return fmt.Sprint(err)
			}},
		}
	case *signature.SignatureDatabase:
		return []c19Op{
			{"Append(SHA256, a new hash)", func(o any) string {
				return fmt.Sprint(o.(*signature.SignatureDatabase).Append(signature.CERT_SHA256_GUID, unwire(ownerB), fill(32, 0x6d)))
			}},
			{"Remove(SHA256, the first hash)", func(o any) string {
				return fmt.Sprint(o.(*signature.SignatureDatabase).Remove(signature.CERT_SHA256_GUID, unwire(ownerA), fill(32, 1)))
			}},
		}
	}
	return nil
}

func c19Units(tier string) []string {
	var u []string
	for si, s := range c19Subjects() {
		u = append(u, fmt.Sprintf("seq#%d", si))
		// subjects added for one specific hazard each (clock-dependent or hand-built values): in the
		// quick tier their interleavings are explored for two threads x one operation only
		light := tier != "thorough" && (strings.Contains(s.name, "advancing clock") || strings.Contains(s.name, "clock advances") || strings.Contains(s.name, "hand-built") || strings.Contains(s.name, "unparsable") || strings.Contains(s.name, "empty lists") || strings.Contains(s.name, "another Spc data type"))
		for k := 0; k < len(s.ops); k++ {
			u = append(u, fmt.Sprintf("sched2x1#%d#%d", si, k))
			if !light {
				u = append(u, fmt.Sprintf("sched2x2#%d#%d", si, k), fmt.Sprintf("sched3x1#%d#%d", si, k))
			}
		}
	}
	return append(u, "race-pass")
}

func c19Run(c *hx.Ctx, tier, unit string) {
	c.NoOnly = true
	debug.SetGCPercent(400)
	vtime.Set(time.Date(2024, 5, 6, 7, 8, 9, 0, time.UTC))
	parts := strings.Split(unit, "#")
	if parts[0] == "race-pass" {
		c19RacePass(c)
		return
	}
	si, _ := strconv.Atoi(parts[1])
	subs := c19Subjects()
	sub := &subs[si]
	// sequential reference: each operation on a fresh object
	refOf := make([]string, len(sub.ops))
	for i, op := range sub.ops {
		o := sub.build()
		refOf[i] = op.run(o)
	}
	switch parts[0] {
	case "seq":
		var rec func(seq []int)
		rec = func(seq []int) {
			if len(seq) > 0 {
				c.Next()
				c.Count("traces", 1)
				o := sub.build()
				before := sub.dump(o)
				visibleBefore := deepdump.DumpVisible(o)
				for k, oi := range seq {
					var r string
					pn := hx.Try(func() { r = sub.ops[oi].run(o) })
					c.Count("transitions", 1)
					names := func() []string {
						var n []string
						for _, x := range seq[:k+1] {
							n = append(n, sub.ops[x].name)
						}
						return n
					}
					if pn != nil {
						c.Outcome("panic")
						c.Violation(fmt.Sprintf("C19 sequential %s: %s panics when repeated", sub.name, sub.ops[oi].name), map[string]any{"sequence": names(), "panic": pn.String()})
						return
					}
					if r != refOf[oi] {
						c.Outcome("result-differs")
						c.Violation(fmt.Sprintf("C19 sequential %s: result of %s depends on earlier calls", sub.name, sub.ops[oi].name), map[string]any{"sequence": names(), "result": r, "first_call_result": refOf[oi]})
						return
					}
					if after := sub.dump(o); after != before {
						// Private state changed. That alone is not a modification of the object in the sense of the
						// statement if it is a one-time fill (a memo, a lazily built index): nothing a caller can
						// reach changed, repeating the call changes nothing further, and every later result is
						// still compared with the fresh-object result below and in the longer sequences.
						if vis := deepdump.DumpVisible(o); vis != visibleBefore {
							c.Outcome("state-changed")
							c.Violation(fmt.Sprintf("C19 sequential %s: %s modifies the object", sub.name, sub.ops[oi].name), map[string]any{"sequence": names(), "what": "exported fields", "state_before": visibleBefore, "state_after": vis})
							return
						}
						o2 := sub.build()
						var again1, again2 string
						pn2 := hx.Try(func() {
							for _, x := range seq[:k+1] {
								sub.ops[x].run(o2)
							}
							again1 = sub.dump(o2)
							sub.ops[oi].run(o2)
							again2 = sub.dump(o2)
						})
						if pn2 != nil || again1 != again2 {
							c.Outcome("state-changed")
							c.Violation(fmt.Sprintf("C19 sequential %s: %s modifies the object", sub.name, sub.ops[oi].name), map[string]any{"sequence": names(), "what": "private state changes again when the call is repeated", "state_before": before, "state_after": after})
							return
						}
						c.Count("one_time_private_fills(allowed)", 1)
						before = after
					}
				}
				c.Outcome("sequence-ok")
				c.Count("states", 1)
				c.Nontrivial([]byte(sub.name), []byte(fmt.Sprint(seq)))
				if len(seq) == 3 && seq[0] == 1 && seq[1] == 0 && seq[2] == 2%len(sub.ops) {
					var n []string
					for _, x := range seq {
						n = append(n, sub.ops[x].name)
					}
					c.Sample(map[string]any{"object": sub.name, "sequence": n})
				}
			}
			if len(seq) == 4 {
				return
			}
			for oi := range sub.ops {
				rec(append(seq, oi))
			}
		}
		rec(nil)
		// "any number of times": every operation 64 times on one object, all results identical
		for oi, op := range sub.ops {
			c.Next()
			c.Count("traces", 1)
			o := sub.build()
			var first string
			for k := 0; k < 64; k++ {
				var r string
				pn := hx.Try(func() { r = op.run(o) })
				c.Count("transitions", 1)
				if pn != nil {
					c.Outcome("panic")
					c.Violation(fmt.Sprintf("C19 sequential %s: %s panics when repeated", sub.name, op.name), map[string]any{"repetition": k, "panic": pn.String()})
					break
				}
				if k == 0 {
					first = r
					if r != refOf[oi] {
						c.Outcome("result-differs")
						c.Violation(fmt.Sprintf("C19 sequential %s: two fresh objects give different results for %s", sub.name, op.name), map[string]any{"result": r, "other": refOf[oi]})
						break
					}
				} else if r != first {
					c.Outcome("result-differs")
					c.Violation(fmt.Sprintf("C19 sequential %s: repeated calls of %s on one object return different results", sub.name, op.name), map[string]any{"repetition": k, "result": r, "first_call_result": first})
					break
				}
			}
			c.Outcome("repetition-ok")
		}
		// read-only calls leave no trace in what the object does next: after every sequence of up to two
		// read-only calls, a modifying call (append a signature, sign, append / remove an entry) and
		// then every read-only call give what they give on an object that was never looked at
		if muts := c19Mutators(sub.build()); len(muts) > 0 {
			after := func(o any, m c19Op) []string {
				out := []string{m.run(o)}
				for _, op := range sub.ops {
					out = append(out, op.run(o))
				}
				return out
			}
			for _, m := range muts {
				var want []string
				if pn := hx.Try(func() { want = after(sub.build(), m) }); pn != nil {
					c.Note("%s: %s on a fresh object panics: %s", sub.name, m.name, pn.String())
					continue
				}
				var seqs [][]int
				for a := range sub.ops {
					seqs = append(seqs, []int{a})
					for b := range sub.ops {
						seqs = append(seqs, []int{a, b})
					}
				}
				for _, seq := range seqs {
					c.Next()
					c.Count("traces", 1)
					o := sub.build()
					var got []string
					var names []string
					pn := hx.Try(func() {
						for _, oi := range seq {
							sub.ops[oi].run(o)
							names = append(names, sub.ops[oi].name)
						}
						got = after(o, m)
					})
					if pn != nil || fmt.Sprint(got) != fmt.Sprint(want) {
						c.Outcome("result-differs")
						c.Violation(fmt.Sprintf("C19 sequential %s: read-only calls change what a later %s and the calls after it do", sub.name, m.name), map[string]any{"read_only_calls_before": names, "results": got, "results_on_an_object_never_looked_at": want, "panic": fmt.Sprint(pn)})
						continue
					}
					c.Outcome("sequence-ok")
					c.Nontrivial([]byte(sub.name), []byte(m.name), []byte(fmt.Sprint(seq)))
				}
			}
		}
	case "sched2x1", "sched2x2", "sched3x1":
		first, _ := strconv.Atoi(parts[2])
		n := len(sub.ops)
		var plans [][][]int
		switch parts[0] {
		case "sched2x1":
			for b := first; b < n; b++ {
				plans = append(plans, [][]int{{first}, {b}})
			}
		case "sched3x1":
			for b := first; b < n; b++ {
				for d := b; d < n; d++ {
					plans = append(plans, [][]int{{first}, {b}, {d}})
				}
			}
		case "sched2x2":
			for a2 := 0; a2 < n; a2++ {
				for b1 := first; b1 < n; b1++ {
					for b2 := 0; b2 < n; b2++ {
						if b1 == first && b2 < a2 {
							continue // unordered pair of sequences
						}
						plans = append(plans, [][]int{{first, a2}, {b1, b2}})
					}
				}
			}
		}
		threads := 2
		if parts[0] == "sched3x1" {
			threads = 3
		}
		for pi, plan := range plans {
			if c.Expired() {
				return
			}
			ref := make([][]string, len(plan))
			for ti := range plan {
				for _, oi := range plan[ti] {
					ref[ti] = append(ref[ti], refOf[oi])
				}
			}
			e := &c19Explorer{c: c, sub: sub, plan: plan, ref: ref, bound: c19Bound(tier, threads), maxExecs: c19MaxExecs(tier), outcomes: map[string]bool{}}
			// iterate the bound: 0, 1, ... (the first counterexample has the fewest preemptions)
			for b := 0; b <= c19Bound(tier, threads); b++ {
				e.bound = b
				e.execs = 0
				e.explore(nil)
			}
			c.Count("harnesses", 1)
			c.Count("states", uint64(len(e.outcomes)))
			c.Max("max:distinct_outcomes_per_harness", uint64(len(e.outcomes)))
			if e.capped {
				c.Count("harnesses_capped", 1)
				c.Note("%s: execution cap %d reached at preemption bound %d; lower bounds completed", e.planName(), e.maxExecs, e.bound)
			}
			if pi == 0 {
				c.Sample(map[string]any{"harness": e.planName(), "executions_at_final_bound": e.execs, "preemption_bound": e.bound,
					"example_schedule": e.lastSchedule, "example_schedule_threads": e.lastThreads, "scheduling_points_in_example": len(e.lastSchedule)})
			}
		}
	}
}

// c19RacePass runs the separately built free-running -race binary.
func c19RacePass(c *hx.Ctx) {
	bin := os.Getenv("VERIF_RACE_BIN")
	if bin == "" {
		c.Note("race pass binary not built (VERIF_RACE_BIN unset): sub-check 3 skipped")
		return
	}
	c.Next()
	c.Tick()
	cmd := exec.Command(bin)
	cmd.Env = append(os.Environ(), "GORACE=halt_on_error=0 exitcode=66")
	out, err := cmd.CombinedOutput()
	c.Count("traces", 1)
	c.Count("transitions", 1)
	c.Count("states", 1)
	s := string(out)
	var rep struct {
		Goroutines int               `json:"goroutines"`
		Calls      int               `json:"calls"`
		Mismatches []string          `json:"mismatches"`
		Extra      map[string]string `json:"extra"`
	}
	if i := strings.LastIndex(s, "RACEPASS "); i >= 0 {
		json.Unmarshal([]byte(strings.TrimSpace(s[i+len("RACEPASS "):])), &rep)
	}
	if strings.Contains(s, "WARNING: DATA RACE") {
		// first report, trimmed to the library frames
		var frames []string
		for _, l := range strings.Split(s, "\n") {
			if strings.Contains(l, "go-uefi/") && len(frames) < 12 {
				frames = append(frames, strings.TrimSpace(l))
			}
		}
		sort.Strings(frames[:0])
		fn := "?"
		for _, f := range frames {
			// frame lines look like "github.com/foxboron/go-uefi/authenticode.(*multi).ReadAt()"
			if i := strings.Index(f, "go-uefi/"); i >= 0 && !strings.Contains(f, ".go:") {
				fn = strings.TrimSuffix(strings.TrimSpace(f[i+len("go-uefi/"):]), "()")
				break
			}
		}
		c.Outcome("data-race")
		c.Violation("C19 race detector: data race in "+fn, map[string]any{"report": trunc(s, 6000)})
		return
	}
	if len(rep.Mismatches) > 0 {
		c.Outcome("result-differs")
		c.Violation("C19 free-running goroutines: "+rep.Mismatches[0], map[string]any{"mismatches": rep.Mismatches})
		return
	}
	if err != nil {
		c.Note("race pass binary failed: %v: %s", err, trunc(s, 400))
		return
	}
	c.Outcome("race-pass-clean")
	c.Count("race_pass_calls", uint64(rep.Calls))
	c.Nontrivial([]byte("race-pass"))
}
