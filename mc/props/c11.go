//go:build !verifsched

package props

import (
	"bytes"
	"crypto/x509"
	"encoding/binary"
	"errors"
	"fmt"
	"os"
	"path"
	"strconv"
	"strings"
	"time"

	"github.com/foxboron/go-uefi/efi"
	"github.com/foxboron/go-uefi/efi/attributes"
	efifs "github.com/foxboron/go-uefi/efi/fs"
	"github.com/foxboron/go-uefi/efi/signature"
	"github.com/foxboron/go-uefi/efi/util"
	"github.com/foxboron/go-uefi/efivar"
	"github.com/foxboron/go-uefi/efivarfs"
	"github.com/foxboron/go-uefi/efivarfs/fswrapper"

	"verif/internal/hx"
	"verif/internal/recfs"
	"verif/keys"
	"verif/ref/refauth"
	"verif/ref/refesl"
	"verif/shim/vtime"
)

var c11Predefined = []efivar.Efivar{efivar.SecureBoot, efivar.SetupMode, efivar.PK, efivar.PKDefault, efivar.KEK, efivar.KEKDefault, efivar.Db, efivar.DbDefault,
	efivar.Dbx, efivar.DbxDefault, efivar.BootCurrent, efivar.BootNext, efivar.BootOrder, efivar.BootEntry, efivar.LoaderTimeInitUSec, efivar.LoaderTimeExecUSec,
	efivar.LoaderDevicePartUUID, efivar.LoaderConfigTimeout, efivar.LoaderConfigTimeoutOneShot, efivar.LoaderEntries, efivar.LoaderEntryDefault, efivar.LoaderEntryOneShot,
	efivar.LoaderEntrySelected, efivar.LoaderFeatures, efivar.LoaderSystemToken}

var c11APIs = []string{"EFIFS.WriteVar", "FSWrapper.WriteEfivarsWithGuid", "attributes.WriteEfivarsWithGuid", "attributes.WriteEfivars", "efi.WriteEFIVariable", "Efivarfs.WriteSignedUpdate"}

func init() {
	hx.Register(&hx.Prop{
		ID:    "C11",
		Level: "exploration",
		Rule: "writes: 6 write APIs (object and legacy) x efivars directory {default, /x/y, rel/dir, names containing % and other characters} x variable definitions (25 predefined + {A, Boot0001, 64-char name} x 3 GUIDs x all 256 attribute masks) x values {empty db, 3-entry db, raw 0/1/4096 bytes}, " +
			"each on a fresh recording filesystem; oracle: the recorded trace is one OpenFile(<dir>/<Name>-<lower-case GUID>, O_WRONLY|O_CREATE [|O_APPEND iff mask&0x40]) and exactly one Write of LE32(mask)||value on it, no other mutating call; under an injected write failure or short write: an error, exactly one write attempt, no other mutating call (no Remove/Rename/Truncate), and a later write on the same wrapper is again exactly one full write. " +
			"reads: stored file {absent, 0..3 bytes, 4 bytes, 4+value} x all 256 stored masks x all 256 required masks through GetVarWithAttributes/GetVar with a spy decoder, legacy readers, typed accessors; " +
			"oracle: value after the first four bytes + stored mask when required is a subset of stored, wrong-attributes error without decoding otherwise, errors for absent/short files. non-trivial = the oracle's positive branch (trace fully matched / value returned or wrong-attributes error) was reached; distinct = distinct (api, dir, definition, value) or (file, stored, required)",
		Assumptions: []string{"trace observed at the afero.Fs boundary over MemMapFs", "non-mutating calls (Stat, read-only Open, Sync, Close) are not judged"},
		Units: func(tier string) []string {
			var u []string
			for _, a := range c11APIs {
				u = append(u, "write#"+a)
			}
			for i := 0; i < 8; i++ {
				u = append(u, "read#"+strconv.Itoa(i))
			}
			return append(u, "legacyread", "typed", "short-write", "real-directory")
		},
		Run:    c11Run,
		Budget: dur(3*time.Minute, 15*time.Minute),
	})
}

type rawval []byte

func (r rawval) Marshal(b *bytes.Buffer) { b.Write(r) }
func (r rawval) Bytes() []byte           { return []byte(r) }

type spy struct {
	called bool
	got    []byte
}

func (s *spy) Unmarshal(b *bytes.Buffer) error {
	s.called = true
	s.got = append([]byte{}, b.Bytes()...)
	return nil
}

func c11Values() []struct {
	name string
	m    efivar.Marshallable
	enc  []byte
} {
	var db3 []refesl.List
	db3 = append(db3, refesl.Mk(refesl.SHA256, 48, refesl.Entry{Owner: ownerA, Data: fill(32, 1)}, refesl.Entry{Owner: ownerB, Data: fill(32, 2)}, refesl.Entry{Owner: ownerA, Data: fill(32, 3)}))
	enc3 := refesl.Encode(db3)
	ldb3, err := signature.ReadSignatureDatabase(bytes.NewReader(enc3))
	if err != nil {
		panic(err)
	}
	empty := signature.SignatureDatabase{}
	// the value SignEFIVariable returns, after it has been looked at and serialised once already
	// (written to another store, dumped to a file): writing it again must write the same bytes
	vtime.Set(time.Date(2024, 5, 6, 7, 8, 9, 0, time.UTC))
	_, su, err := signature.SignEFIVariable(efivar.Db, &ldb3, memoSignerFor(1), keys.C(1))
	if err != nil {
		panic(err)
	}
	suEnc := append([]byte{}, su.Bytes()...)
	var scratch bytes.Buffer
	su.Marshal(&scratch)
	return []struct {
		name string
		m    efivar.Marshallable
		enc  []byte
	}{
		{"empty-db", &empty, nil},
		{"3-entry-db", &ldb3, enc3},
		{"raw-0", rawval{}, nil},
		{"raw-1", rawval{0x5a}, []byte{0x5a}},
		{"raw-4096", rawval(fill(4096, 9)), fill(4096, 9)},
		{"signed-update object that was serialised once before", su, suEnc},
	}
}

type c11Def struct {
	name  string
	guid  util.EFIGUID
	attrs uint32
}

func c11Defs(thorough bool) []c11Def {
	var d []c11Def
	for _, v := range c11Predefined {
		d = append(d, c11Def{v.Name, *v.GUID, uint32(v.Attributes)})
	}
	guids := []util.EFIGUID{unwire(ownerA), unwire(ownerB), {Data1: 0x0000000a, Data2: 0x000b, Data3: 0x0c00, Data4: [8]byte{0, 0xd, 0, 0, 0, 0, 0, 0xe}}, {}} // (the last: all zero)
	names := []string{"A", "Boot0001", strings.Repeat("N", 64)}
	for ni, n := range names {
		for gi, g := range guids {
			for m := 0; m < 256; m++ {
				if !thorough && (ni+gi)%3 != 0 && m%0x11 != 0 && m != 0x40 && m != 0x27 && m != 0x67 {
					continue
				}
				d = append(d, c11Def{n, g, uint32(m)})
			}
		}
	}
	// names with characters that mean something to a path, to Printf or to efivarfs' own listing
	// ('/' is shown as '!' there): the file is <dir>/<Name>-<GUID> with the name as it is
	for _, n := range []string{"a/b", "a!b", "a\\b", "a b", "%s%d", "\u00fc-\u00f6", "Boot0001-"} {
		for _, m := range []uint32{0x07, 0x27, 0x47} {
			d = append(d, c11Def{n, guids[0], m})
		}
	}
	return d
}

var c11Early, c11Existing bool

func c11Write(c *hx.Ctx, api, dir string, d c11Def, vname string, m efivar.Marshallable, enc []byte) {
	if !c.Next() {
		return
	}
	rec := recfs.New()
	// c11Early: the object API's wrapper exists before the caller configures the directory (the
	// directory is what attributes.Efivars holds when the operation runs, as for the legacy API)
	var early *fswrapper.FSWrapper
	if c11Early {
		early = fswrapper.NewMemoryWrapper()
	}
	newWrapper := func() *fswrapper.FSWrapper {
		if early != nil {
			return early
		}
		return fswrapper.NewMemoryWrapper()
	}
	attributes.Efivars = dir
	defer func() { attributes.Efivars = "/sys/firmware/efi/efivars" }()
	if c11Existing {
		// the variable exists already, stored with another attribute mask and a longer value: the write
		// is made with the caller's mask and value all the same
		eg := d.guid
		if api == "attributes.WriteEfivars" || api == "efi.WriteEFIVariable" {
			eg = attributes.EFI_GLOBAL_VARIABLE
			if d.name == "db" || d.name == "dbx" || d.name == "dbt" || d.name == "dbr" {
				eg = attributes.EFI_IMAGE_SECURITY_DATABASE_GUID
			}
		}
		p := path.Join(dir, d.name+"-"+refFormat(eg))
		rec.Inner.MkdirAll(dir, 0o755)
		if fh, err := rec.Inner.Create(p); err == nil {
			fh.Write(append(binary.LittleEndian.AppendUint32(nil, (d.attrs^0x21)&^0x40), fill(len(enc)+9, 0x6e)...))
			fh.Close()
		}
	}
	g := d.guid
	v := efivar.Efivar{Name: d.name, GUID: &g, Attributes: attributes.Attributes(d.attrs)}
	wantAttrs := d.attrs
	wantGUID := d.guid
	wantValue := enc
	var err error
	var signedPrefix bool
	p := hx.Try(func() {
		switch api {
		case "EFIFS.WriteVar":
			fw := newWrapper()
			fw.SetFS(rec)
			err = (&efivarfs.EFIFS{FSWrapper: fw}).WriteVar(v, m)
		case "Efivarfs.WriteSignedUpdate":
			fw := newWrapper()
			fw.SetFS(rec)
			e := efivarfs.Open(&efivarfs.EFIFS{FSWrapper: fw})
			err = e.WriteSignedUpdate(v, m, keys.K(1), keys.C(1))
			signedPrefix = true
		case "FSWrapper.WriteEfivarsWithGuid":
			fw := newWrapper()
			fw.SetFS(rec)
			err = fw.WriteEfivarsWithGuid(d.name, attributes.Attributes(d.attrs), enc, d.guid)
		case "attributes.WriteEfivarsWithGuid":
			efifs.SetFS(rec)
			err = attributes.WriteEfivarsWithGuid(d.name, attributes.Attributes(d.attrs), enc, d.guid)
		case "attributes.WriteEfivars":
			efifs.SetFS(rec)
			err = attributes.WriteEfivars(d.name, attributes.Attributes(d.attrs), enc)
			wantGUID = attributes.EFI_GLOBAL_VARIABLE
			if d.name == "db" || d.name == "dbx" || d.name == "dbt" || d.name == "dbr" {
				wantGUID = attributes.EFI_IMAGE_SECURITY_DATABASE_GUID
			}
		case "efi.WriteEFIVariable":
			efifs.SetFS(rec)
			err = efi.WriteEFIVariable(d.name, enc)
			wantAttrs = uint32(efi.ValidAttributes[d.name])
			wantGUID = attributes.EFI_GLOBAL_VARIABLE
			if d.name == "db" || d.name == "dbx" || d.name == "dbt" || d.name == "dbr" {
				wantGUID = attributes.EFI_IMAGE_SECURITY_DATABASE_GUID
			}
		}
	})
	detail := map[string]any{"api": api, "dir": dir, "name": d.name, "guid": refFormat(d.guid), "attrs": fmt.Sprintf("%#x", d.attrs), "value": vname}
	var tr []string
	for _, e := range rec.Events {
		tr = append(tr, e.String())
	}
	detail["trace"] = tr
	bad := func(what string) {
		c.Outcome("violation")
		c.Violation("C11 write via "+api+": "+what, detail)
	}
	if p != nil {
		bad("ends in " + p.String())
		return
	}
	if err != nil {
		detail["error"] = err.Error()
		bad("returns an error on a working filesystem")
		return
	}
	wantPath := path.Join(dir, d.name+"-"+refFormat(wantGUID))
	wantFlags := os.O_WRONLY | os.O_CREATE
	if wantAttrs&0x40 != 0 {
		wantFlags |= os.O_APPEND
	}
	opens, writes := 0, 0
	for _, e := range rec.Events {
		switch e.Op {
		case "OpenFile":
			opens++
			if e.Name != wantPath {
				bad("opens another path than <dir>/<Name>-<lower-case GUID>")
				return
			}
			if e.Flags != wantFlags {
				if e.Flags&os.O_APPEND != wantFlags&os.O_APPEND {
					bad("append mode does not follow the APPEND_WRITE attribute")
				} else {
					bad("open flags are not write-only|create")
				}
				return
			}
		case "f.Write":
			writes++
			if e.Name != wantPath {
				bad("writes to another file")
				return
			}
			want := binary.LittleEndian.AppendUint32(nil, wantAttrs)
			if signedPrefix {
				// descriptor || value; its own layout is C06's subject, here: attrs, then something ending in the value
				if len(e.Data) < 4+40+len(wantValue) || !bytes.Equal(e.Data[:4], want) || !bytes.HasSuffix(e.Data, wantValue) {
					bad("signed update buffer is not attributes || descriptor || value")
					return
				}
				if _, n, perr := refauth.ParseAuth2(e.Data[4:]); perr != nil || 4+n+len(wantValue) != len(e.Data) {
					bad("signed update buffer is not attributes || descriptor || value")
					return
				}
			} else if !bytes.Equal(e.Data, append(want, wantValue...)) {
				if len(e.Data) >= 4 && !bytes.Equal(e.Data[:4], want) {
					bad("buffer does not start with the little-endian attribute mask")
				} else {
					bad("buffer is not attributes || encoded value")
				}
				return
			}
		case "Stat", "Open", "f.Close", "f.Sync", "f.Stat", "f.Read", "f.ReadAt", "f.Seek":
			// non-mutating
		default:
			bad("touches something else: " + e.Op)
			return
		}
	}
	if opens != 1 {
		bad(fmt.Sprintf("%d opens instead of one", opens))
		return
	}
	if writes != 1 {
		bad(fmt.Sprintf("%d write operations instead of exactly one", writes))
		return
	}
	c.Outcome("write-ok")
	c.Nontrivial([]byte(api), []byte(dir), []byte(d.name), refBE(d.guid), []byte{byte(d.attrs)}, []byte(vname))
}

// c11AfterFailure: a write that fails (error, short count, close error) followed by a healthy write
// of another variable through the same FSWrapper; the second write's trace must be the contract's.
func c11AfterFailure(c *hx.Ctx, at uint32, enc []byte) {
	for _, kind := range []string{"err@f.Write", "short@f.Write", "err@f.Close"} {
		rec := recfs.New()
		failing := true
		rec.Fault = func(k int, op string) string {
			if failing && "err@"+op == kind {
				return "err"
			}
			if failing && "short@"+op == kind {
				return "short"
			}
			return ""
		}
		fw := fswrapper.NewMemoryWrapper()
		fw.SetFS(rec)
		g := unwire(ownerA)
		pn := hx.Try(func() {
			fw.WriteEfivarsWithGuid("First", attributes.Attributes(at), enc, g)
			failing = false
			rec.Events = nil
			second := fill(9, 0x42)
			err := fw.WriteEfivarsWithGuid("Second", attributes.Attributes(7), second, g)
			writes := 0
			okBuf := false
			for _, e := range rec.Events {
				if e.Op == "f.Write" {
					writes++
					okBuf = bytes.Equal(e.Data, append([]byte{7, 0, 0, 0}, second...))
				}
			}
			touched := ""
			for _, e := range rec.Events {
				switch e.Op {
				case "f.Write", "OpenFile", "Stat", "Open", "f.Close", "f.Sync", "f.Stat", "f.Read", "f.ReadAt", "f.Seek":
				default:
					touched = e.Op
				}
			}
			if touched != "" {
				c.Outcome("violation")
				c.Violation("C11 write after a failed write on the same object touches something else: "+touched, map[string]any{"failed_write": kind})
			}
			if err != nil || writes != 1 || !okBuf {
				c.Outcome("violation")
				var tr []string
				for _, e := range rec.Events {
					tr = append(tr, e.String())
				}
				c.Violation("C11 write after a failed write on the same object: buffer is not attributes || encoded value", map[string]any{"failed_write": kind, "trace": tr, "error": fmt.Sprint(err)})
			} else {
				c.Outcome("write-after-failure-ok")
			}
		})
		if pn != nil {
			c.Violation("C11 write after a failed write ends in "+pn.String(), map[string]any{"failed_write": kind})
		}
	}
}

func c11Read(c *hx.Ctx, kind string, file []byte, present bool, stored, required uint32) {
	if !c.Next() {
		return
	}
	rec := recfs.New()
	g := unwire(ownerA)
	p := path.Join("/sys/firmware/efi/efivars", "V-"+refFormat(g))
	if present {
		f, _ := rec.Inner.Create(p)
		f.Write(file)
		f.Close()
	}
	fw := fswrapper.NewMemoryWrapper()
	fw.SetFS(rec)
	e := &efivarfs.EFIFS{FSWrapper: fw}
	v := efivar.Efivar{Name: "V", GUID: &g, Attributes: attributes.Attributes(required)}
	var s, s2 spy
	var at attributes.Attributes
	var err, err2 error
	pn := hx.Try(func() {
		at, err = e.GetVarWithAttributes(v, &s)
		err2 = e.GetVar(v, &s2)
	})
	detail := map[string]any{"file": hx8(file), "present": present, "stored_mask": fmt.Sprintf("%#x", stored), "required_mask": fmt.Sprintf("%#x", required), "kind": kind}
	bad := func(what string) {
		c.Outcome("violation")
		detail["err"] = fmt.Sprint(err)
		c.Violation("C11 read: "+what, detail)
	}
	if pn != nil {
		if !present || len(file) < 4 {
			c.Outcome("short-file-crash(C14)")
			return
		}
		bad("ends in " + pn.String())
		return
	}
	switch {
	case !present || len(file) < 4:
		if err == nil || err2 == nil {
			bad("absent or shorter-than-four-byte file does not yield an error")
			return
		}
		if s.called || s2.called {
			bad("decoder invoked for an absent or short file")
			return
		}
		c.Outcome("read-short-error")
	case required&^stored != 0:
		if !errors.Is(err, efivarfs.ErrIncorrectAttributes) || !errors.Is(err2, efivarfs.ErrIncorrectAttributes) {
			bad("stored mask lacks a required attribute but the wrong-attributes error is not returned")
			return
		}
		if s.called || s2.called {
			bad("value decoded although the stored mask lacks a required attribute")
			return
		}
		c.Outcome("read-wrong-attributes")
		c.Nontrivial(file, []byte{byte(stored), byte(required)})
	default:
		if err != nil || err2 != nil {
			bad("read fails although the stored mask has every required attribute")
			return
		}
		if uint32(at) != stored {
			bad("returned attributes are not the stored mask")
			return
		}
		if !s.called || !bytes.Equal(s.got, file[4:]) || !s2.called || !bytes.Equal(s2.got, file[4:]) {
			bad("decoder did not receive exactly the bytes after the first four")
			return
		}
		c.Outcome("read-ok")
		c.Nontrivial(file, []byte{byte(stored), byte(required)})
	}
}

func c11Run(c *hx.Ctx, tier, unit string) {
	thorough := tier == "thorough"
	switch {
	case strings.HasPrefix(unit, "write#"):
		api := strings.TrimPrefix(unit, "write#")
		// "any efivars directory": also names with characters that mean something to Printf or to path
		// cleaning when they end up in a format string or a joined path
		dirs := []string{"/sys/firmware/efi/efivars", "/x/y", "rel/dir", "/mnt/esp%20backup/efivars", "/x/%s-%d/%", "/a b/c\\d"}
		defs := c11Defs(thorough)
		vals := c11Values()
		for _, dir := range dirs {
			for di, d := range defs {
				for vi, v := range vals {
					if api == "Efivarfs.WriteSignedUpdate" {
						// RSA signing per case: keep to predefined + mask sweep on one name, two values
						if (di >= len(c11Predefined) && (d.name != "A" || d.guid != unwire(ownerA))) || vi == 0 || vi >= 3 || (dir != dirs[0] && !thorough && di%5 != 0) {
							continue
						}
					}
					if api == "efi.WriteEFIVariable" && di >= len(c11Predefined) && d.attrs != 0 {
						continue // attributes come from the library's table, not from the caller
					}
					if di == 2 && vi == 1 {
						c.Sample(map[string]any{"api": api, "dir": dir, "name": d.name, "guid": refFormat(d.guid), "attrs": d.attrs, "value": v.name})
					}
					c11Write(c, api, dir, d, v.name, v.m, v.enc)
					if di%3 == 0 || di < len(c11Predefined) {
						c11Existing = true
						c11Write(c, api, dir, d, v.name+" (variable exists with another mask and a longer value)", v.m, v.enc)
						c11Existing = false
						c11Early = true
						c11Write(c, api, dir, d, v.name+" (wrapper object created before the directory was configured)", v.m, v.enc)
						c11Early = false
					}
				}
				// values that begin with the very attribute mask the write puts in front of them
				if api != "Efivarfs.WriteSignedUpdate" && !(api == "efi.WriteEFIVariable" && di >= len(c11Predefined) && d.attrs != 0) {
					mask := d.attrs
					if api == "efi.WriteEFIVariable" {
						mask = uint32(efi.ValidAttributes[d.name])
					}
					for _, tail := range [][]byte{nil, {0xde, 0xad, 0xbe}} {
						val := append(binary.LittleEndian.AppendUint32(nil, mask), tail...)
						c11Write(c, api, dir, d, fmt.Sprintf("raw value of %d bytes that begins with the variable's own attribute mask", len(val)), rawval(val), val)
					}
				}
			}
		}
	case strings.HasPrefix(unit, "read#"):
		k, _ := strconv.Atoi(strings.TrimPrefix(unit, "read#"))
		for stored := k * 32; stored < (k+1)*32; stored++ {
			pre := binary.LittleEndian.AppendUint32(nil, uint32(stored))
			files := []struct {
				kind    string
				b       []byte
				present bool
			}{{"absent", nil, false}, {"0-bytes", []byte{}, true}, {"1-byte", pre[:1], true}, {"2-bytes", pre[:2], true}, {"3-bytes", pre[:3], true},
				{"4-bytes", pre, true}, {"4+value", append(append([]byte{}, pre...), fill(7, 0x33)...), true}}
			for _, f := range files {
				for req := 0; req < 256; req++ {
					if f.kind != "4-bytes" && f.kind != "4+value" && req%17 != 0 {
						continue
					}
					c11Read(c, f.kind, f.b, f.present, uint32(stored), uint32(req))
				}
			}
		}
		c.Sample(map[string]any{"stored_masks": fmt.Sprintf("%d..%d", k*32, k*32+31), "required_masks": "0..255", "files": "absent,0..3 bytes,4 bytes,4+value"})
	case unit == "short-write":
		// a write() on efivarfs is one SetVariable call: when the filesystem takes only part of
		// the buffer the operation must fail, not issue a second write with the rest
		for _, api := range []string{"EFIFS.WriteVar", "FSWrapper.WriteEfivarsWithGuid", "attributes.WriteEfivarsWithGuid"} {
			for _, at := range []uint32{0x07, 0x27, 0x67} {
				for _, fk := range []string{"short", "eagain", "eintr", "enospc", "err"} {
					for _, v := range c11Values()[1:] {
						if len(v.enc) == 0 || !c.Next() {
							continue
						}
						fk := fk
						rec := recfs.New()
						rec.Fault = func(k int, op string) string {
							if op == "f.Write" {
								for _, e := range rec.Events {
									if e.Op == "f.Write" && len(e.Data) > 0 && &e != nil {
										return "" // only the first write fails (short count, or an errno the OS calls temporary, ...)
									}
								}
								return fk
							}
							return ""
						}
						g := unwire(ownerA)
						var err error
						pn := hx.Try(func() {
							switch api {
							case "EFIFS.WriteVar":
								fw := fswrapper.NewMemoryWrapper()
								fw.SetFS(rec)
								err = (&efivarfs.EFIFS{FSWrapper: fw}).WriteVar(efivar.Efivar{Name: "V", GUID: &g, Attributes: attributes.Attributes(at)}, v.m)
							case "FSWrapper.WriteEfivarsWithGuid":
								fw := fswrapper.NewMemoryWrapper()
								fw.SetFS(rec)
								err = fw.WriteEfivarsWithGuid("V", attributes.Attributes(at), v.enc, g)
							default:
								efifs.SetFS(rec)
								err = attributes.WriteEfivarsWithGuid("V", attributes.Attributes(at), v.enc, g)
							}
						})
						writes := 0
						other := ""
						var tr []string
						for _, e := range rec.Events {
							tr = append(tr, e.String())
							switch e.Op {
							case "f.Write":
								writes++
							case "OpenFile", "Stat", "Open", "f.Close", "f.Sync", "f.Stat", "f.Read", "f.ReadAt", "f.Seek":
							default:
								other = e.Op
							}
						}
						d := map[string]any{"api": api, "attrs": at, "value": v.name, "trace": tr, "error": fmt.Sprint(err), "first_write_fails_with": fk}
						switch {
						case pn != nil:
							c.Violation("C11 short write via "+api+": ends in "+pn.String(), d)
						case other != "":
							c.Outcome("violation")
							c.Violation("C11 short write via "+api+": the failed write touches something else: "+other, d)
						case writes != 1:
							c.Outcome("violation")
							c.Violation(fmt.Sprintf("C11 short write via %s: %d write operations instead of exactly one (a partial write is retried)", api, writes), d)
						case err == nil:
							c.Outcome("violation")
							c.Violation("C11 short write via "+api+": success reported", d)
						default:
							c.Outcome("short-write-ok")
							c.Nontrivial([]byte(api), []byte{byte(at)}, []byte(v.name))
						}
						// a later write through the SAME wrapper object must not be affected by the failed one
						if api == "FSWrapper.WriteEfivarsWithGuid" && pn == nil {
							c11AfterFailure(c, at, v.enc)
						}
					}
				}
			}
		}
	case unit == "real-directory":
		c11RealFS(c)
	case unit == "legacyread":
		for stored := 0; stored < 256; stored++ {
			for _, n := range []int{-1, 0, 1, 3, 4, 11} {
				if !c.Next() {
					continue
				}
				rec := recfs.New()
				efifs.SetFS(rec)
				g := attributes.EFI_GLOBAL_VARIABLE
				full := append(binary.LittleEndian.AppendUint32(nil, uint32(stored)), fill(7, 0x44)...)
				if n >= 0 {
					f, _ := rec.Inner.Create(path.Join("/sys/firmware/efi/efivars", "SetupMode-"+refFormat(g)))
					f.Write(full[:n])
					f.Close()
				}
				var at attributes.Attributes
				var buf *bytes.Buffer
				var err error
				pn := hx.Try(func() { at, buf, err = attributes.ReadEfivars("SetupMode") })
				detail := map[string]any{"file_len": n, "stored": stored}
				switch {
				case pn != nil && n < 4:
					c.Outcome("short-file-crash(C14)")
				case pn != nil:
					c.Violation("C11 legacy read: ends in "+pn.String(), detail)
				case n < 4:
					if err == nil {
						c.Violation("C11 legacy read: absent or shorter-than-four-byte file does not yield an error", detail)
					} else {
						c.Outcome("read-short-error")
					}
				default:
					if err != nil || uint32(at) != uint32(stored) || !bytes.Equal(buf.Bytes(), full[4:n]) {
						c.Violation("C11 legacy read: attributes/value are not the stored mask and the bytes after the first four", detail)
					} else {
						c.Outcome("read-ok")
						c.Nontrivial([]byte("legacy"), []byte{byte(stored), byte(n)})
					}
				}
			}
		}
	case unit == "typed":
		// typed accessors: required masks come from the predefined definitions
		for stored := 0; stored < 256; stored++ {
			for _, val := range []byte{0, 1} {
				if !c.Next() {
					continue
				}
				rec := recfs.New()
				fw := fswrapper.NewMemoryWrapper()
				fw.SetFS(rec)
				e := efivarfs.Open(&efivarfs.EFIFS{FSWrapper: fw})
				f, _ := rec.Inner.Create(path.Join("/sys/firmware/efi/efivars", "SecureBoot-"+globalGUIDText))
				f.Write(append(binary.LittleEndian.AppendUint32(nil, uint32(stored)), val))
				f.Close()
				var got bool
				var err error
				pn := hx.Try(func() { got, err = e.GetSecureBoot() })
				req := uint32(efivar.SecureBoot.Attributes)
				detail := map[string]any{"stored": stored, "value": val}
				switch {
				case pn != nil:
					c.Violation("C11 typed accessor: ends in "+pn.String(), detail)
				case req&^uint32(stored) != 0:
					if !errors.Is(err, efivarfs.ErrIncorrectAttributes) {
						c.Violation("C11 typed accessor: wrong-attributes error not returned", detail)
					} else {
						c.Outcome("read-wrong-attributes")
					}
				default:
					if err != nil || got != (val == 1) {
						c.Violation("C11 typed accessor: value differs from the stored byte", detail)
					} else {
						c.Outcome("read-ok")
						c.Nontrivial([]byte("typed"), []byte{byte(stored), val})
					}
				}
			}
		}
	}
	_ = x509.Certificate{}
}
