package props

import "verif/ref/refesl"

// Owners with asymmetric bytes so byte-order mistakes show.
var (
	ownerA = refesl.MkGUID(0x01020304, 0x0506, 0x0708, [8]byte{0x09, 0x0a, 0x0b, 0x0c, 0x0d, 0x0e, 0x0f, 0x10})
	ownerB = refesl.MkGUID(0xf1e2d3c4, 0xb5a6, 0x9788, [8]byte{0x79, 0x6a, 0x5b, 0x4c, 0x3d, 0x2e, 0x1f, 0x00})
)

func fill(n int, pat byte) []byte {
	b := make([]byte, n)
	for i := range b {
		b[i] = pat + byte(i*7)
	}
	return b
}

// listShapes enumerates every list over: type {X.509, SHA-256, externally
// managed}; entry count 0..maxEntries; per entry owner {A,B} x fill pattern
// {p,q}; X.509 data length {1,5,6}.
func listShapes(maxEntries int) []refesl.List {
	var out []refesl.List
	type kind struct {
		t    refesl.GUID
		lens []int
	}
	kinds := []kind{{refesl.X509, []int{1, 5, 6}}, {refesl.SHA256, []int{32}}, {refesl.EXTMGT, []int{1}}}
	for _, k := range kinds {
		for _, dl := range k.lens {
			for n := 0; n <= maxEntries; n++ {
				// each entry: 4 variants (owner x pattern)
				total := 1
				for i := 0; i < n; i++ {
					total *= 4
				}
				for v := 0; v < total; v++ {
					es := make([]refesl.Entry, n)
					x := v
					for i := 0; i < n; i++ {
						c := x % 4
						x /= 4
						o := ownerA
						if c&1 == 1 {
							o = ownerB
						}
						p := byte(0x11)
						if c&2 == 2 {
							p = 0xc3
						}
						es[i] = refesl.Entry{Owner: o, Data: fill(dl, p+byte(i))}
					}
					out = append(out, refesl.Mk(k.t, uint32(16+dl), es...))
				}
			}
		}
	}
	return append(out, specialShapes()...)
}

// specialShapes are well-formed lists a decoder might be tempted to "tidy up": the same entry
// twice, the same data under two owners, X.509 entries whose payload is PEM text or begins / ends
// with white-space, NUL or 0xff bytes. Decoding must hand back exactly what is there.
func specialShapes() []refesl.List {
	e := func(o refesl.GUID, d []byte) refesl.Entry { return refesl.Entry{Owner: o, Data: d} }
	h := fill(32, 0x51)
	var out []refesl.List
	out = append(out,
		refesl.Mk(refesl.SHA256, 48, e(ownerA, h), e(ownerA, h)),
		refesl.Mk(refesl.SHA256, 48, e(ownerA, h), e(ownerB, fill(32, 0x52)), e(ownerA, h)),
		refesl.Mk(refesl.SHA256, 48, e(ownerA, h), e(ownerB, h)),
		refesl.Mk(refesl.X509, 16+6, e(ownerB, fill(6, 0x53)), e(ownerB, fill(6, 0x53))),
	)
	pemText := []byte("-----BEGIN CERTIFICATE-----\nAQIDBAUGBwg=\n-----END CERTIFICATE-----\n")
	out = append(out, refesl.Mk(refesl.X509, uint32(16+len(pemText)), e(ownerA, pemText)))
	for _, d := range [][]byte{[]byte(" \tDER\r\n"), {0x30, 0x03, 0x02, 0x01, 0x0a}, {0x00, 0x30, 0x00}, {0xff, 0xfe, 0x00, 0x00}, []byte("\n")} {
		out = append(out, refesl.Mk(refesl.X509, uint32(16+len(d)), e(ownerA, d)))
	}
	return out
}

// forStreams calls f for every ordered sequence of 0..maxLists shapes whose
// first shape index is congruent to shard mod nshards (the empty stream
// belongs to shard 0).
func forStreams(shapes []refesl.List, maxLists, shard, nshards int, f func(ls []refesl.List) bool) {
	if shard == 0 {
		if !f(nil) {
			return
		}
	}
	var rec func(cur []refesl.List) bool
	rec = func(cur []refesl.List) bool {
		if len(cur) > 0 {
			if !f(cur) {
				return false
			}
		}
		if len(cur) == maxLists {
			return true
		}
		for i, s := range shapes {
			if len(cur) == 0 && i%nshards != shard {
				continue
			}
			if !rec(append(cur, s)) {
				return false
			}
		}
		return true
	}
	rec(nil)
}
