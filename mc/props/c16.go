//go:build !verifsched

package props

import (
	"bytes"
	"crypto/sha256"
	"crypto/x509"
	"fmt"
	"math/big"
	"os"
	"sort"
	"strconv"
	"strings"
	"time"

	"github.com/foxboron/go-uefi/pkcs7"

	"verif/internal/hx"
	"verif/internal/ossl"
	"verif/keys"
	"verif/ref/der"
	"verif/ref/refauth"
	"verif/ref/refp7"
	"verif/ref/refpe"
)

func init() {
	hx.Register(&hx.Prop{
		ID:    "C16",
		Level: "exploration",
		Rule: "full product of producer configurations generated with the openssl CLI at check time: tool {smime, cms} x S/MIME capabilities {default, -nosmimecap} x {detached, -nodetach} x certificates {included, -nocerts} x extra signed attributes / content type {none, cms -cades, cms -econtent_type <short OID>, cms -econtent_type <14+ octet OID>} x content {empty, 1, 64, 70000 bytes} x RSA {2048; thorough 3072, 4096} x certificate {short issuer, long multi-RDN issuer with a 20-byte high-bit serial, CA-issued leaf}; " +
			"plus the sbsign / sbvarsign artefacts shipped with the repository (signature files, the signed PE image, six .auth descriptors). " +
			"oracle: every blob parses; blobs with signed attributes verify against the signer's certificate and not against another certificate nor against one with the same issuer+serial and another key; " +
			"the attribute block cut out of the blob (re-tagged SET) equals Attributes.Marshal() of the parsed values byte for byte, and is what the RSA signature verifies over (independent check). " +
			"non-trivial = parsed, verified against all three certificates and re-encoding compared; distinct = distinct blob",
		Assumptions: []string{"OpenSSL as installed in the image is the third-party producer; osslsigncode/pesign are not installed", "signer identification by issuer+serial only (-keyid configurations are outside the statement)"},
		Units: func(tier string) []string {
			u := []string{"fixtures", "resign"}
			for _, k := range c05Keys(tier) {
				for _, tool := range []string{"smime", "cms"} {
					u = append(u, fmt.Sprintf("openssl#%s#k%d", tool, k))
				}
			}
			return u
		},
		Run:    c16Run,
		Budget: dur(5*time.Minute, 30*time.Minute),
	})
}

func c16Judge(c *hx.Ctx, blob []byte, signer *x509.Certificate, label string, producer string) {
	if !c.Next() {
		return
	}
	bad := func(what string, extra map[string]any) {
		d := map[string]any{"case": label, "blob": hx8(blob)}
		for k, v := range extra {
			d[k] = v
		}
		c.Outcome("violation")
		c.Violation(fmt.Sprintf("C16 %s [producer %s]", what, producer), d)
	}
	ref, rerr := refp7.Parse(blob)
	if rerr != nil || len(ref.Signers) == 0 {
		c.Note("reference cannot read %s: %v", label, rerr)
		return
	}
	pristine := append([]byte{}, blob...)
	defer func() {
		if !bytes.Equal(blob, pristine) {
			bad("parsing/verifying modifies the signature bytes it was given", nil)
		}
	}()
	var p *pkcs7.PKCS7
	var err error
	if pn := hx.Try(func() { p, err = pkcs7.ParsePKCS7(blob) }); pn != nil {
		bad("parsing ends in "+pn.String(), nil)
		return
	}
	if err != nil {
		bad("third-party signature does not parse", map[string]any{"error": err.Error()})
		return
	}
	hasAttrs := ref.Signers[0].AttrsNode != nil
	if !hasAttrs {
		var ok bool
		if pn := hx.Try(func() { ok, err = p.Verify(signer) }); pn != nil {
			bad("verifying a signature without signed attributes ends in "+pn.String(), nil)
			return
		}
		if ok {
			bad("a signature without signed attributes reports success", nil)
			return
		}
		c.Outcome("no-attrs-parsed-not-verified")
		c.Nontrivial(blob)
		return
	}
	certs := []struct {
		name string
		c    *x509.Certificate
		want bool
	}{{"signer's certificate", signer, true}, {"another certificate", keys.C(2), false}, {"same issuer+serial, other key", samePlate(signer), false},
		{"same issuer+serial, key of another size", samePlatesOtherSizes(signer)[0], false}, {"same issuer+serial, key of a third size", samePlatesOtherSizes(signer)[1], false}}
	for _, ct := range certs {
		var ok bool
		if pn := hx.Try(func() { ok, err = p.Verify(ct.c) }); pn != nil {
			bad("verification ends in "+pn.String(), map[string]any{"certificate": ct.name})
			return
		}
		if ok != ct.want || (ct.want && err != nil) {
			if ct.want {
				bad("valid third-party signature does not verify against the signer's certificate", map[string]any{"error": fmt.Sprint(err)})
			} else {
				bad("signature verifies against "+ct.name, nil)
			}
			return
		}
	}
	// the same parsed object verified again in other orders: verdicts must not depend on history
	for _, seq := range [][]int{{0, 2, 1, 0, 2}, {2, 0, 2}, {1, 2, 0, 2}, {3, 0, 4, 0}, {4, 3, 0}} {
		p2, e2 := pkcs7.ParsePKCS7(blob)
		if e2 != nil {
			break
		}
		for _, ci := range seq {
			var ok bool
			if pn := hx.Try(func() { ok, _ = p2.Verify(certs[ci].c) }); pn != nil {
				bad("verification ends in "+pn.String(), nil)
				return
			}
			if ok != certs[ci].want {
				bad("verdict against "+certs[ci].name+" depends on verifications made earlier on the same parsed object", map[string]any{"order": seq})
				return
			}
		}
	}
	// re-encoding of the parsed attributes
	if len(p.SignerInfo) != len(ref.Signers) {
		bad("number of signer entries differs", nil)
		return
	}
	for i := range ref.Signers {
		g := &ref.Signers[i]
		if g.AttrsNode == nil {
			continue
		}
		signed := g.SignedAttrsDER()
		var re []byte
		if pn := hx.Try(func() { re = p.SignerInfo[i].AuthenticatedAttributes.Marshal() }); pn != nil {
			bad("re-encoding the parsed attributes ends in "+pn.String(), nil)
			return
		}
		if !bytes.Equal(re, signed) {
			bad("re-encoding the parsed signed attributes does not reproduce the signed bytes", map[string]any{"signed": hx8(signed), "reencoded": hx8(re)})
			return
		}
		if g.Names(signer) {
			if v := ref.Valid(signer, nil); !v.OK && !strings.Contains(v.Reason, "messageDigest") {
				c.Note("reference rejects producer output %s: %s", label, v.Reason)
			}
		}
		sum := sha256.Sum256(signed)
		_ = sum
	}
	// a value parsed from a private copy of the bytes is the caller's to overwrite; later cases and the
	// library's package-level state must not notice
	if p3, e3 := pkcs7.ParsePKCS7(append([]byte{}, blob...)); e3 == nil {
		scribbleResult(p3)
	}
	c.Outcome("third-party-ok")
	c.Nontrivial(blob)
}

func c16LongCert(k int) (*x509.Certificate, error) {
	serial, _ := new(big.Int).SetString("f1e2d3c4b5a69788796a5b4c3d2e1f0011223344", 16)
	return c05Cert(k, c05Issuers()[1], serial)
}

func c16Run(c *hx.Ctx, tier, unit string) {
	parts := strings.Split(unit, "#")
	switch parts[0] {
	case "fixtures":
		for _, f := range []string{"/repo/authenticode/testdata/test.pecoff.pk7", "/repo/authenticode/testdata/test.authenticode.signed", "/repo/pkcs7/testdata/test.signed",
			"/repo/pkcs7/testdata/old_pkcs7_implementation.der", "/repo/authenticode/testdata/old_authenticode_implementation.der"} {
			b, err := os.ReadFile(f)
			if err != nil {
				continue
			}
			c16Fixture(c, b, f)
		}
		for _, f := range []string{"/repo/authenticode/testdata/test.pecoff.signed", "/repo/tests/data/binary/HelloWorld.efi.signed"} {
			b, err := os.ReadFile(f)
			if err != nil {
				continue
			}
			im, err := refpe.Parse(b)
			if err != nil {
				continue
			}
			for i, wc := range refpe.CertTable(b, im) {
				c16Fixture(c, wc.Body, fmt.Sprintf("%s entry %d", f, i))
			}
		}
		for _, f := range []string{"/repo/tests/data/signatures/varsign/PK.auth", "/repo/tests/data/signatures/varsign/db.auth", "/repo/tests/data/signatures/varsign/KEK.auth",
			"/repo/tests/ovmf/keys/PK/PK.auth", "/repo/tests/ovmf/keys/db/db.auth", "/repo/tests/ovmf/keys/KEK/KEK.auth"} {
			b, err := os.ReadFile(f)
			if err != nil {
				continue
			}
			a, _, err := refauth.ParseAuth2(b)
			if err != nil {
				continue
			}
			c16Fixture(c, a.CertData, f+" CertData")
		}
		// signatures as Authenticode signers (signtool, osslsigncode) lay them out: further signed
		// attributes (SpcSpOpusInfo, SpcStatementType, others) that are shorter / longer than the
		// standard three, in DER SET OF order, signed by the right key. Built by hand on the library's
		// own blob with the reference encoder.
		for _, extra := range [][]*der.Node{
			{der.Cons(0x30, der.Prim(0x06, der.OID(1, 3, 6, 1, 4, 1, 311, 2, 1, 12)), der.Cons(0x31, der.Cons(0x30)))},
			{der.Cons(0x30, der.Prim(0x06, der.OID(1, 3, 6, 1, 4, 1, 311, 2, 1, 12)), der.Cons(0x31, der.Cons(0x30))),
				der.Cons(0x30, der.Prim(0x06, der.OID(1, 3, 6, 1, 4, 1, 311, 2, 1, 11)), der.Cons(0x31, der.Cons(0x30, der.Prim(0x06, der.OID(1, 3, 6, 1, 4, 1, 311, 2, 1, 21)))))},
			{der.Cons(0x30, der.Prim(0x06, der.OID(1, 2)), der.Cons(0x31, der.Prim(0x05, nil)))},
			{der.Cons(0x30, der.Prim(0x06, der.OID(1, 2, 840, 113549, 1, 9, 16, 2, 47)), der.Cons(0x31, der.Prim(0x04, fill(200, 3))))},
		} {
			for _, seed := range p7LibSeeds() {
				if seed.Name != "lib-authenticode-k1" && seed.Name != "lib-detached-data-k1" {
					continue
				}
				t, err := p7Open(seed.Blob)
				if err != nil || t.attrs == nil {
					continue
				}
				t.attrs.Children = append(t.attrs.Children, extra...)
				sort.Slice(t.attrs.Children, func(i, j int) bool {
					return bytes.Compare(t.attrs.Children[i].Encode(), t.attrs.Children[j].Encode()) < 0
				})
				t.si.Children[t.sigIdx].Val = signAttrs(seed.Key, t.attrs)
				c16Judge(c, t.root.Encode(), seed.Signer, fmt.Sprintf("%s with %d further signed attributes in DER order", seed.Name, len(extra)), "hand-built (Authenticode-signer style)")
			}
		}
	case "resign":
		// messages that went through two producers: signed by one openssl front end (PKCS#7 or CMS code),
		// co-signed by the other (or the same) with -resign. The two write the SHA-256 AlgorithmIdentifier
		// differently (NULL parameters / none), so the added signer entry may spell it unlike digestAlgorithms.
		if !ossl.Available() {
			c.Note("openssl not installed")
			return
		}
		sess, err := ossl.New()
		if err != nil {
			return
		}
		defer sess.Close()
		content := fill(64, 0x41)
		for _, t1 := range []string{"smime", "cms"} {
			for _, t2 := range []string{"smime", "cms"} {
				for _, det := range [][]string{nil, {"-nodetach"}} {
					for _, order := range []int{0, 1} { // which of the two signers is the one under test
						k := []int{1, 3}
						first, second := k[order], k[1-order]
						label := fmt.Sprintf("openssl %s -sign %v by k%d, then openssl %s -resign by k%d", t1, det, first, t2, second)
						c.Tick()
						b1, err := sess.Sign(t1, keys.K(first), keys.C(first), content, det...)
						if err != nil {
							c.Note("producer failed for %s: %v", label, err)
							continue
						}
						b2, err := sess.Resign(t2, b1, keys.K(second), keys.C(second), det...)
						if err != nil {
							c.Note("producer failed for %s: %v", label, err)
							continue
						}
						c.Count("producer_configurations", 1)
						c16Judge(c, b2, keys.C(1), label, "openssl "+t1+" + "+t2+" -resign")
					}
				}
			}
		}
	case "openssl":
		if !ossl.Available() {
			c.Note("openssl not installed")
			return
		}
		tool := parts[1]
		k, _ := strconv.Atoi(strings.TrimPrefix(parts[2], "k"))
		sess, err := ossl.New()
		if err != nil {
			return
		}
		defer sess.Close()
		long, err := c16LongCert(k)
		if err != nil {
			c.Note("long certificate: %v", err)
			return
		}
		certs := []*x509.Certificate{keys.C(k), long, keys.Leaf(k)}
		contents := []int{0, 1, 64, 70000}
		if tier != "thorough" {
			contents = []int{0, 64}
		}
		extras := [][]string{nil}
		// messages co-signed by a second signer (another RSA key, an ECDSA key), named before and
		// after the signer under test: the other SignerInfo must not disturb verification
		ecKey, ecCert := keys.ECSigner()
		ecK, ecC := sess.Write("eck.pem", ecKey), sess.Write("ecc.pem", ecCert)
		k2K, k2C := sess.WriteKey("k3.pem", keys.K(3)), sess.WriteCert("c3.pem", keys.C(3)) // not key 2: C(2) is the judge's "another certificate"
		cosign := [][]string{{"-signer", ecC, "-inkey", ecK}, {"-signer", k2C, "-inkey", k2K}, {"FIRST", "-signer", ecC, "-inkey", ecK}, {"FIRST", "-signer", k2C, "-inkey", k2K}}
		extras = append(extras, cosign...)
		if tool == "cms" {
			// content-type OIDs long enough to sort behind every other signed attribute
			longOID := func(n int) string {
				s := "1.3.6.1.4.1.99999"
				for i := 0; len(s) < 2*n; i++ {
					s += "." + strconv.Itoa(1+i%9)
				}
				return s
			}
			extras = append(extras, []string{"-econtent_type", longOID(52)}, []string{"-econtent_type", longOID(60)}, []string{"-econtent_type", longOID(110)})
			extras = append(extras, []string{"-cades"},
				// a content type whose OID is long enough to change the DER order of the signed attributes
				[]string{"-econtent_type", "1.3.6.1.4.1.99999.1.2.3.4.5.6.7"}, []string{"-econtent_type", "1.2.3"})
		}
		for _, cap := range [][]string{nil, {"-nosmimecap"}} {
			for _, det := range [][]string{nil, {"-nodetach"}} {
				for _, nc := range [][]string{nil, {"-nocerts"}} {
					for _, ex := range extras {
						type cont struct {
							n int
							b []byte
						}
						var cs []cont
						for _, n := range contents {
							cs = append(cs, cont{n, fill(n, 0x41)})
						}
						if ex == nil && nc == nil {
							for i, tc := range trickyContents() {
								cs = append(cs, cont{-1 - i, tc.b})
							}
						}
						// content that is itself one DER element (a typed content as CMS carries it inside the
						// eContent OCTET STRING: receipts, timestamp tokens, nested messages): the digest covers it whole
						if len(cap) == 0 && len(nc) == 0 {
							cs = append(cs, cont{-100, der.Cons(0x30, der.Prim(0x02, []byte{5}), der.Prim(0x04, []byte("typed content"))).Encode()},
								cont{-101, der.Prim(0x04, []byte("an OCTET STRING as content")).Encode()})
						}
						for _, cn := range cs {
							n := cn.n
							for ci, cert := range certs {
								if n < 0 && ci != 0 {
									continue
								}
								var args []string
								args = append(args, cap...)
								args = append(args, det...)
								args = append(args, nc...)
								args = append(args, ex...)
								label := fmt.Sprintf("openssl %s %v content=%d key=k%d cert=%d", tool, args, n, k, ci)
								c.Tick()
								blob, err := sess.Sign(tool, keys.K(k), cert, cn.b, args...)
								if err != nil {
									c.Note("producer failed for %s: %v", label, err)
									continue
								}
								c.Count("producer_configurations", 1)
								if n == 64 && ci == 0 {
									c.Sample(map[string]any{"config": label, "blob_len": len(blob)})
								}
								c16Judge(c, blob, cert, label, "openssl "+tool)
							}
						}
					}
				}
			}
		}
	}
}

func c16Fixture(c *hx.Ctx, blob []byte, label string) {
	ref, err := refp7.Parse(blob)
	if err != nil || len(ref.Signers) == 0 {
		c.Note("fixture %s is not a SignedData per reference: %v", label, err)
		return
	}
	var signer *x509.Certificate
	for _, cr := range ref.Certs {
		if ct, err := x509.ParseCertificate(cr); err == nil && ref.Signers[0].Names(ct) {
			signer = ct
		}
	}
	if signer == nil {
		// certificate not embedded: parse-only
		signer = keys.C(1)
		if ref.Signers[0].AttrsNode != nil {
			c.Note("fixture %s has no embedded signer certificate: parsed only", label)
			if !c.Next() {
				return
			}
			var perr error
			if pn := hx.Try(func() { _, perr = pkcs7.ParsePKCS7(blob) }); pn != nil || perr != nil {
				c.Violation("C16 third-party signature does not parse [producer fixture]", map[string]any{"case": label, "error": fmt.Sprint(perr, pn)})
			}
			return
		}
	}
	c.Sample(map[string]any{"fixture": label, "has_attrs": ref.Signers[0].AttrsNode != nil})
	c.Count("fixtures", 1)
	c16Judge(c, blob, signer, label, "repository fixture")
}
