//go:build !verifsched

package props

import (
	"bytes"
	"crypto"
	"crypto/rand"
	"crypto/rsa"
	"crypto/sha256"
	"crypto/x509"
	"crypto/x509/pkix"
	encasn1 "encoding/asn1"
	"fmt"
	"io"
	"math/big"
	"strconv"
	"strings"
	"time"

	mozp7 "go.mozilla.org/pkcs7"

	"github.com/foxboron/go-uefi/pkcs7"

	"verif/internal/hx"
	"verif/internal/ossl"
	"verif/keys"
	"verif/ref/der"
	"verif/ref/refp7"
	"verif/shim/vtime"
)

func init() {
	hx.Register(&hx.Prop{
		ID:    "C05",
		Level: "exploration",
		Rule: "full product content length {0,1,2,55,56,63,64,65,127,128,129,255,256,257,65535,65536} x content type {data, SpcIndirectDataContent, 1.2.3, an OID with arcs 2^14 and 2^31-1 (the largest arc encoding/asn1-based verifiers accept)} x RSA {2048; thorough: 3072, 4096} x issuer {short, >127-byte DER, multi-valued RDN, UTF8String} x serial {1,0x7f,0x80,0xff,0x100,0x00ff.., 8/16/19/20-byte, all-ones 20-byte}; " +
			"each blob produced by SignPKCS7 is judged by three independent verifiers: (1) refp7 (structure, SHA-256, signer = issuer+serial byte for byte, certificate embedded, contentType and messageDigest attributes, RSA over the attribute SET as emitted, accept with the content / reject with one byte changed / one byte longer); " +
			"(2) go.mozilla.org/pkcs7 Parse+Verify (which re-encodes the attribute SET in DER order) with the same accept/reject pair; (3) openssl smime -verify for a subset of the data cases; plus the library's own parser and verifier. " +
			"non-trivial = all verifiers were evaluated on the blob; distinct = distinct (content, type, key, certificate)",
		Assumptions: []string{"for non-data content types the content is a concatenation of DER elements (SignPKCS7 places it inside a SEQUENCE)", "openssl and go.mozilla.org/pkcs7 are secondary oracles", "signing time is the real clock"},
		Units: func(tier string) []string {
			var u []string
			for _, k := range c05Keys(tier) {
				for i := range c05Issuers() {
					u = append(u, fmt.Sprintf("sign#k%d#i%d", k, i))
				}
			}
			return append(u, "openssl", "zones", "oids")
		},
		Run:    c05Run,
		Budget: dur(5*time.Minute, 40*time.Minute),
	})
}

func c05Keys(tier string) []int {
	// 5 and 6: RSA moduli of 2050 and 2047 bits (length not a multiple of eight)
	if tier == "thorough" {
		return []int{1, 3, 4, 5, 6}
	}
	return []int{1, 5}
}

type c05Issuer struct {
	name string
	raw  []byte
	ca   bool       // issued by keys.CA(): issuer differs from subject
	kind *keys.Kind // how the certificate itself is signed / by what kind of CA (nil = SHA256WithRSA)
}

func c05Issuers() []c05Issuer {
	oidCN := der.OID(2, 5, 4, 3)
	oidO := der.OID(2, 5, 4, 10)
	oidC := der.OID(2, 5, 4, 6)
	rdn := func(attrs ...*der.Node) *der.Node { return der.Cons(0x31, attrs...) }
	atv := func(oid []byte, tag byte, v string) *der.Node {
		return der.Cons(0x30, der.Prim(0x06, oid), der.Prim(tag, []byte(v)))
	}
	name := func(rdns ...*der.Node) []byte { return der.Cons(0x30, rdns...).Encode() }
	is := []c05Issuer{
		{"short", name(rdn(atv(oidCN, 0x13, "a"))), false, nil},
		{"long (>127 bytes)", name(rdn(atv(oidC, 0x13, "NO")), rdn(atv(oidO, 0x13, strings.Repeat("Long Organisation Name ", 9))), rdn(atv(oidCN, 0x13, "signer"))), false, nil},
		{"multi-valued RDN", name(rdn(atv(oidCN, 0x13, "mv"), atv(oidO, 0x13, "org")), rdn(atv(oidCN, 0x13, "leaf"))), false, nil},
		{"UTF8String", name(rdn(atv(oidO, 0x0c, "Ünïcödé Örg")), rdn(atv(oidCN, 0x0c, "ключ"))), false, nil},
		{"issued by a CA (issuer != subject)", name(rdn(atv(oidCN, 0x13, "leaf signer"))), true, nil},
		// attribute types and an order Go's pkix.Name would not produce: common name first, e-mail address
		// and domain components as IA5String
		{"CN before C, emailAddress, domainComponent", name(rdn(atv(oidCN, 0x0c, "first")), rdn(atv(oidC, 0x13, "NO")), rdn(atv(der.OID(1, 2, 840, 113549, 1, 9, 1), 0x16, "sb@example.org")),
			rdn(atv(der.OID(0, 9, 2342, 19200300, 100, 1, 25), 0x16, "example")), rdn(atv(der.OID(0, 9, 2342, 19200300, 100, 1, 25), 0x16, "org"))), false, nil},
	}
	// the certificate's own signature algorithm and the kind of CA that issued it are irrelevant to
	// the SignedData (always SHA-256 / RSA with the signer's key): every kind is in the alphabet
	for i, kd := range keys.Kinds()[2:] {
		kd := kd
		is = append(is, c05Issuer{"certificate " + kd.Name, name(rdn(atv(oidO, 0x13, "kinds")), rdn(atv(oidCN, 0x13, fmt.Sprintf("kind %d", i)))), false, &kd})
	}
	return is
}

func c05Serials() []*big.Int {
	h := func(s string) *big.Int { v, _ := new(big.Int).SetString(s, 16); return v }
	return []*big.Int{big.NewInt(1), big.NewInt(0x7f), big.NewInt(0x80), big.NewInt(0xff), big.NewInt(0x100), h("00ff00ff"), h("0102030405060708"),
		h("f1e2d3c4b5a69788796a5b4c3d2e1f00"), h("7fffffffffffffffffffffffffffffffffffff"), h("0123456789abcdef0123456789abcdef01234567"), h("ffffffffffffffffffffffffffffffffffffffff")}
}

func c05Cert(k int, iss c05Issuer, serial *big.Int) (*x509.Certificate, error) {
	if iss.kind != nil {
		return keys.CertOfKind(k, *iss.kind, iss.raw, pkix.Name{}, serial)
	}
	tmpl := &x509.Certificate{SerialNumber: serial, RawSubject: iss.raw, NotBefore: keys.NotBefore, NotAfter: keys.NotAfter,
		SignatureAlgorithm: x509.SHA256WithRSA, KeyUsage: x509.KeyUsageDigitalSignature, BasicConstraintsValid: true}
	parent, signer := tmpl, memoSignerFor(k)
	if iss.ca {
		parent, signer = keys.CA(), memoSignerFor(2)
	}
	d, err := x509.CreateCertificate(rand.Reader, tmpl, parent, &keys.K(k).PublicKey, signer)
	if err != nil {
		return nil, err
	}
	return x509.ParseCertificate(d)
}

type c05Type struct {
	name string
	oid  encasn1.ObjectIdentifier
	raw  []byte
}

func c05Types() []c05Type {
	return []c05Type{
		{"data", pkcs7.OIDData, refp7.OIDData},
		{"SpcIndirectDataContent", encasn1.ObjectIdentifier{1, 3, 6, 1, 4, 1, 311, 2, 1, 4}, refp7.OIDSpcIndirect},
		{"1.2.3", encasn1.ObjectIdentifier{1, 2, 3}, der.OID(1, 2, 3)},
		{"1.2.16384.2147483647.5", encasn1.ObjectIdentifier{1, 2, 16384, 2147483647, 5}, der.OID(1, 2, 16384, 2147483647, 5)},
		// 16 content octets: the contentType attribute becomes longer than the signingTime attribute,
		// so the DER SET OF order differs from the order the signer writes them in
		{"1.2.2147483647.2147483647.2147483647", encasn1.ObjectIdentifier{1, 2, 2147483647, 2147483647, 2147483647}, der.OID(1, 2, 2147483647, 2147483647, 2147483647)},
	}
}

// c05NegativeSerialCerts builds certificates whose serial number INTEGER is negative (first content
// octet has its top bit set, no leading zero octet). RFC 5280 forbids them, CAs have issued them,
// and Go parses them; x509.CreateCertificate refuses to make one, so the serial of a certificate
// made by it is rewritten in the DER and the certificate signed again.
func c05NegativeSerialCerts(k int) []*x509.Certificate {
	var out []*x509.Certificate
	for _, ser := range [][]byte{{0xff}, {0x80}, {0xf1, 0xe2, 0xd3, 0xc4}, {0x80, 0, 0, 0, 0, 0, 0, 0, 0, 0, 0, 0, 0, 0, 0, 0, 0, 0, 0, 1}} {
		base := keys.Cert(pkix.Name{CommonName: "verif negative serial", Organization: []string{"verif"}}, new(big.Int).SetBytes(append([]byte{0x01}, ser[1:]...)), &keys.K(k).PublicKey, keys.K(k))
		root, err := der.Parse(base.Raw)
		if err != nil || len(root.Children) != 3 || len(root.Children[0].Children) < 2 {
			continue
		}
		tbs := root.Children[0]
		tbs.Children[1].Val = ser // [0] version, then the serial number
		h := sha256.Sum256(tbs.Encode())
		sig, err := rsa.SignPKCS1v15(nil, keys.K(k), crypto.SHA256, h[:])
		if err != nil {
			continue
		}
		root.Children[2].Val = append([]byte{0}, sig...)
		if c, err := x509.ParseCertificate(root.Encode()); err == nil && c.SerialNumber.Sign() < 0 {
			out = append(out, c)
		}
	}
	return out
}

// c05OIDFamily: content-type OIDs under every root (0.x, 1.x, 2.x with a second arc below and
// above 39, which only root 2 allows), with DER sizes 3..18 octets (the order of the signed
// attributes depends on the size) and zero, one or two zero arcs inside.
func c05OIDFamily() []c05Type {
	var out []c05Type
	roots := [][2]int{{0, 9}, {1, 2}, {1, 39}, {2, 5}, {2, 40}, {2, 999}}
	for _, r := range roots {
		first := 1
		if 40*r[0]+r[1] >= 128 {
			first = 2
		}
		for size := 3; size <= 18; size++ {
			for zeros := 0; zeros <= 2; zeros++ {
				k := size - first
				if k < zeros+1 {
					continue
				}
				arcs := []int{r[0], r[1]}
				for i := 0; i < k; i++ {
					a := 1 + (i*7+size)%120
					if i >= 1 && i <= zeros {
						a = 0
					}
					arcs = append(arcs, a)
				}
				u := make([]uint64, len(arcs))
				name := ""
				for i, a := range arcs {
					u[i] = uint64(a)
					if i > 0 {
						name += "."
					}
					name += strconv.Itoa(a)
				}
				out = append(out, c05Type{name, encasn1.ObjectIdentifier(arcs), der.OID(u...)})
			}
		}
	}
	// long object identifiers: the signed-attribute SET grows with the content type, and its DER length
	// field changes form at 128 and at 256 octets (and every enclosing length with it): every OID
	// size 19..120 in steps of 3, and every size 121..200 (the SET crosses 256 octets in there)
	for size := 19; size <= 200; size++ {
		if size < 121 && size%3 != 0 {
			continue
		}
		arcs := []int{1, 3}
		for i := 0; i < size-1; i++ {
			arcs = append(arcs, 1+(i*5+size)%120)
		}
		u := make([]uint64, len(arcs))
		for i, a := range arcs {
			u[i] = uint64(a)
		}
		out = append(out, c05Type{fmt.Sprintf("1.3.<%d single-octet arcs>", size-1), encasn1.ObjectIdentifier(arcs), der.OID(u...)})
	}
	return out
}

var c05Lens = []int{0, 1, 2, 55, 56, 63, 64, 65, 127, 128, 129, 255, 256, 257, 65535, 65536}

// c05Content builds content of exactly n bytes; for non-data types it is a
// concatenation of DER OCTET STRINGs (lengths 0 and 1 cannot be DER elements: they are raw).
// c05Shapes are other DER shapes of non-data content (the library puts the content inside a
// SEQUENCE itself): one complete SEQUENCE element, two SEQUENCEs, a SEQUENCE followed by an
// OCTET STRING, a single OCTET STRING, an empty SEQUENCE.
func c05Shapes() [][]byte {
	seq := func(body ...byte) []byte { return append([]byte{0x30, byte(len(body))}, body...) }
	oct := func(body ...byte) []byte { return append([]byte{0x04, byte(len(body))}, body...) }
	a := seq(append(oct(1, 2, 3), oct(4, 5)...)...)
	b := seq(oct(9, 9, 9)...)
	return [][]byte{a, append(append([]byte{}, a...), b...), append(append([]byte{}, a...), oct(7)...), oct(1, 2, 3, 4), seq(), append(seq(), seq()...)}
}

func c05Content(n int, data bool) []byte {
	if data || n < 2 {
		return fill(n, 0x2f)
	}
	var out []byte
	for len(out) < n {
		rem := n - len(out)
		// pick a TLV of total size <= rem that leaves either 0 or >= 2 bytes
		size := rem
		if size > 130 {
			size = 100
		}
		if rem-size == 1 {
			size--
		}
		var tlv []byte
		switch {
		case size < 2+128:
			tlv = append([]byte{0x04, byte(size - 2)}, fill(size-2, byte(len(out)))...)
		default:
			tlv = append([]byte{0x04, 0x81, byte(size - 3)}, fill(size-3, byte(len(out)))...)
		}
		out = append(out, tlv...)
	}
	return out
}

func c05Check(c *hx.Ctx, k int, cert *x509.Certificate, ty c05Type, content []byte, sess *ossl.Session, label string) {
	var blob []byte
	var err error
	if pn := hx.Try(func() { blob, err = pkcs7.SignPKCS7(memoSignerFor(k), cert, ty.oid, content) }); pn != nil {
		c.Outcome("sign-panic")
		c.Violation("C05 SignPKCS7 ends in "+pn.String(), map[string]any{"case": label})
		return
	}
	if err != nil {
		c.Outcome("sign-error")
		c.Violation("C05 SignPKCS7 fails for a valid key/certificate/content", map[string]any{"case": label, "error": err.Error()})
		return
	}
	bad := func(who, what string, extra map[string]any) {
		d := map[string]any{"case": label, "blob": hx8(blob)}
		for k, v := range extra {
			d[k] = v
		}
		c.Outcome("violation:" + who)
		c.Violation(fmt.Sprintf("C05 %s: %s [content type %s]", who, what, ty.name), d)
	}
	attached := !(ty.name == "data") && len(content) > 0
	// (1) reference verifier
	sd, perr := refp7.Parse(blob)
	if perr != nil {
		bad("reference verifier", "output does not parse as SignedData", map[string]any{"error": perr.Error()})
		return
	}
	if root, derr := der.Parse(blob); derr != nil || !bytes.Equal(root.Encode(), blob) {
		bad("reference verifier", "output is not minimal DER", nil)
		return
	}
	switch {
	case !sd.Wrapped:
		bad("reference verifier", "no outer ContentInfo", nil)
		return
	case len(sd.DigestAlgs) != 1 || !bytes.Equal(sd.DigestAlgs[0], refp7.OIDSHA256):
		bad("reference verifier", "digest algorithm is not SHA-256", nil)
		return
	case !bytes.Equal(sd.EContentType, ty.raw):
		bad("reference verifier", "encapsulated content type differs from the requested one", nil)
		return
	case len(sd.Signers) != 1:
		bad("reference verifier", "not exactly one signer", nil)
		return
	}
	g := &sd.Signers[0]
	switch {
	case !bytes.Equal(g.IssuerRaw, cert.RawIssuer):
		bad("reference verifier", "signer issuer is not the certificate's issuer byte for byte", nil)
		return
	case g.Serial.Cmp(cert.SerialNumber) != 0:
		bad("reference verifier", "signer serial number differs from the certificate's", map[string]any{"got": g.Serial.Text(16), "want": cert.SerialNumber.Text(16)})
		return
	case !bytes.Equal(g.DigestAlg, refp7.OIDSHA256):
		bad("reference verifier", "signer digest algorithm is not SHA-256", nil)
		return
	case len(sd.Certs) != 1 || !bytes.Equal(sd.Certs[0], cert.Raw):
		bad("reference verifier", "certificate is not embedded", nil)
		return
	case !bytes.Equal(g.ContentType(), ty.raw):
		bad("reference verifier", "contentType attribute differs from the content type", nil)
		return
	}
	if ok, val := signingTimeIsDER(g); !ok {
		bad("reference verifier", "signingTime is not in the DER form (UTC, seconds, 'Z')", map[string]any{"value": val})
		return
	}
	sum := sha256.Sum256(content)
	if !bytes.Equal(g.MessageDigest(), sum[:]) {
		bad("reference verifier", "messageDigest attribute is not SHA-256 of the content", nil)
		return
	}
	if attached {
		if sd.EContent == nil || !bytes.Equal(sd.EContent.RawContent(), content) {
			bad("reference verifier", "encapsulated content differs from the supplied content", nil)
			return
		}
	} else if sd.EContent != nil {
		bad("reference verifier", "content unexpectedly encapsulated", nil)
		return
	}
	det := content
	if attached {
		det = nil
	}
	if v := sd.Valid(cert, det); !v.OK {
		bad("reference verifier", "rejects the signature over the supplied content: "+v.Reason, nil)
		return
	}
	if !attached {
		changed := append([]byte{}, content...)
		if len(changed) > 0 {
			changed[len(changed)/2] ^= 1
			if v := sd.Valid(cert, changed); v.OK {
				bad("reference verifier", "accepts changed content", nil)
				return
			}
		}
		if v := sd.Valid(cert, append(append([]byte{}, content...), 0)); v.OK {
			bad("reference verifier", "accepts content that is one byte longer", nil)
			return
		}
	}
	// (2) go.mozilla.org/pkcs7
	mp, merr := mozp7.Parse(blob)
	if merr != nil {
		bad("go.mozilla.org/pkcs7", "does not parse the output", map[string]any{"error": merr.Error()})
		return
	}
	if !attached {
		mp.Content = content
	}
	if verr := mp.Verify(); verr != nil && strings.Contains(verr.Error(), "is outside of certificate validity") {
		// this implementation also holds the signing time against the certificate's validity period,
		// which is no part of the statement (clock instants outside the test certificates' lifetime)
		c.Count("mozilla_not_judged_validity_period", 1)
	} else if verr != nil {
		what := "rejects the signature"
		if strings.Contains(verr.Error(), "verification error") || strings.Contains(verr.Error(), "verification failure") {
			what = "rejects the signature over the attribute SET re-encoded in DER order"
		}
		bad("go.mozilla.org/pkcs7", what, map[string]any{"error": verr.Error()})
		return
	}
	if !attached {
		mp.Content = append(append([]byte{}, content...), 0)
		if mp.Verify() == nil {
			bad("go.mozilla.org/pkcs7", "accepts content that is one byte longer", nil)
			return
		}
	}
	// (3) openssl for data
	if sess != nil && ty.name == "data" {
		if ok, e := sess.Verify("smime", blob, cert, content); !ok {
			bad("openssl smime -verify", "rejects the signature", map[string]any{"stderr": e})
			return
		}
		if ok, _ := sess.Verify("smime", blob, cert, append(append([]byte{}, content...), 0)); ok {
			bad("openssl smime -verify", "accepts content that is one byte longer", nil)
			return
		}
		c.Outcome("openssl-agrees")
	}
	// library's own parser and verifier (which must not modify the caller's bytes)
	pristine := append([]byte{}, blob...)
	var lp *pkcs7.PKCS7
	var lok bool
	if pn := hx.Try(func() {
		lp, err = pkcs7.ParsePKCS7(blob)
		if err == nil {
			lok, err = lp.Verify(cert)
		}
	}); pn != nil || err != nil || !lok {
		bad("library's own verifier", "does not accept the output", map[string]any{"error": fmt.Sprint(err, pn)})
		return
	}
	if !bytes.Equal(blob, pristine) {
		bad("library's own parser", "modifies the signature bytes it was given (a later verifier sees a corrupted blob)", nil)
		return
	}
	if !lp.OID.Equal(ty.oid) || len(lp.Certs) != 1 || !bytes.Equal(lp.Certs[0].Raw, cert.Raw) || len(lp.SignerInfo) != 1 ||
		!lp.SignerInfo[0].AuthenticatedAttributes.ContentType.Equal(ty.oid) || !bytes.Equal(lp.SignerInfo[0].AuthenticatedAttributes.MessageDigest, sum[:]) {
		bad("library's own parser", "does not recover content type, certificate and attributes", nil)
		return
	}
	if attached {
		// ContentInfo holds the element inside [0]: SEQUENCE { content }
		n, derr := der.Parse(lp.ContentInfo)
		if derr != nil || !bytes.Equal(n.RawContent(), content) {
			bad("library's own parser", "does not recover the content", nil)
			return
		}
	}
	// what the parser returned is the caller's: it is overwritten here (object identifiers, digests,
	// content). The next signature (the next case) is made and judged after that; the harness also
	// compares the library's package-level variables before and after the unit.
	if lp2, e2 := pkcs7.ParsePKCS7(append([]byte{}, blob...)); e2 == nil {
		scribbleResult(lp2)
	}
	c.Outcome("all-verifiers-agree")
	c.Nontrivial(blob[:64], []byte(label))
}

func c05Run(c *hx.Ctx, tier, unit string) {
	parts := strings.Split(unit, "#")
	if parts[0] == "openssl" {
		if !ossl.Available() {
			c.Note("openssl not installed: verifier (3) skipped")
			return
		}
		sess, err := ossl.New()
		if err != nil {
			c.Note("openssl session: %v", err)
			return
		}
		defer sess.Close()
		ty := c05Types()[0]
		lens := []int{0, 1, 64, 257, 65536}
		if tier == "thorough" {
			lens = c05Lens
		}
		for ii, iss := range c05Issuers() {
			for si, serial := range c05Serials() {
				if tier != "thorough" && (ii+si)%3 != 0 {
					continue
				}
				cert, err := c05Cert(1, iss, serial)
				if err != nil {
					continue
				}
				for _, n := range lens {
					if !c.Next() {
						continue
					}
					c.Tick()
					c05Check(c, 1, cert, ty, c05Content(n, true), sess, fmt.Sprintf("openssl issuer=%s serial=%s len=%d", iss.name, serial.Text(16), n))
				}
			}
		}
		return
	}
	if parts[0] == "oids" {
		// certificates with a negative serial number (where the platform's X.509 parser accepts them)
		for _, nc := range c05NegativeSerialCerts(1) {
			for _, ty := range c05Types()[:2] {
				if !c.Next() {
					continue
				}
				c05Check(c, 1, nc, ty, c05Content(64, ty.name == "data"), nil, fmt.Sprintf("negative serial %s type=%s", nc.SerialNumber.Text(16), ty.name))
			}
		}
		cert := keys.C(1)
		for _, ty := range c05OIDFamily() {
			for _, n := range []int{0, 64} {
				if !c.Next() {
					continue
				}
				c05Check(c, 1, cert, ty, c05Content(n, false), nil, fmt.Sprintf("type=%s len=%d", ty.name, n))
			}
		}
		return
	}
	if parts[0] == "zones" {
		// the process's local zone must not show in the output: the clock is reported in several zones
		// (whole-hour, fractional-hour, date-changing offsets)
		defer vtime.Unset()
		inst := time.Date(2024, 12, 31, 23, 30, 15, 0, time.UTC)
		cert := keys.C(1)
		for _, z := range []*time.Location{time.UTC, time.FixedZone("+01:00", 3600), time.FixedZone("-05:00", -5*3600), time.FixedZone("+05:30", 5*3600+1800), time.FixedZone("+14:00", 14*3600), time.FixedZone("-12:00", -12*3600)} {
			vtime.Set(inst.In(z))
			for _, ty := range c05Types()[:2] {
				for _, n := range []int{0, 64} {
					if !c.Next() {
						continue
					}
					c05Check(c, 1, cert, ty, c05Content(n, ty.name == "data"), nil, fmt.Sprintf("zone=%s type=%s len=%d", z, ty.name, n))
				}
			}
		}
		// instants at and beyond the end of the UTCTime window (1950-2049): the signing time must then be
		// a GeneralizedTime (RFC 5652 11.3), and the signature must still be made and verify everywhere
		for _, at := range []time.Time{time.Date(2049, 12, 31, 23, 59, 59, 0, time.UTC), time.Date(2050, 1, 1, 0, 0, 0, 0, time.UTC), time.Date(2100, 2, 28, 12, 0, 0, 0, time.UTC),
			time.Date(9999, 12, 31, 23, 59, 59, 0, time.UTC), time.Date(1970, 1, 1, 0, 0, 0, 0, time.UTC), time.Date(2024, 2, 29, 23, 59, 59, 999999999, time.UTC)} {
			vtime.Set(at)
			for _, ty := range c05Types()[:2] {
				if !c.Next() {
					continue
				}
				c05Check(c, 1, cert, ty, c05Content(64, ty.name == "data"), nil, fmt.Sprintf("clock at %s type=%s", at.Format(time.RFC3339), ty.name))
			}
		}
		// a clock that moves on between any two readings (by a second, by less, across midnight and
		// the year): whatever instants the signing code reads, the signature must be over the
		// attributes it embeds
		for _, step := range []time.Duration{time.Second, 400 * time.Millisecond, 31 * time.Minute, 24 * time.Hour} {
			for _, ty := range c05Types()[:2] {
				for _, n := range []int{0, 64} {
					if !c.Next() {
						continue
					}
					vtime.SetStepping(inst, step)
					c05Check(c, 1, cert, ty, c05Content(n, ty.name == "data"), nil, fmt.Sprintf("clock advancing by %s at every reading, type=%s len=%d", step, ty.name, n))
				}
			}
		}
		return
	}
	k, _ := strconv.Atoi(strings.TrimPrefix(parts[1], "k"))
	ii, _ := strconv.Atoi(strings.TrimPrefix(parts[2], "i"))
	iss := c05Issuers()[ii]
	for _, serial := range c05Serials() {
		cert, err := c05Cert(k, iss, serial)
		if err != nil {
			c.Note("certificate with issuer %s serial %s cannot be created: %v", iss.name, serial.Text(16), err)
			continue
		}
		for _, ty := range c05Types() {
			for _, n := range c05Lens {
				if n == 1 && ty.name != "data" {
					continue // one byte cannot be a DER element; outside the domain for non-data types
				}
				if !c.Next() {
					continue
				}
				if c.Expired() {
					return
				}
				label := fmt.Sprintf("key=k%d issuer=%s serial=%s type=%s len=%d", k, iss.name, serial.Text(16), ty.name, n)
				if n == 64 && ty.name == "data" {
					c.Sample(label)
				}
				c05Check(c, k, cert, ty, c05Content(n, ty.name == "data"), nil, label)
			}
			if ty.name == "data" {
				for _, tc := range trickyContents() {
					if !c.Next() {
						continue
					}
					c05Check(c, k, cert, ty, tc.b, nil, fmt.Sprintf("key=k%d issuer=%s serial=%s type=data content=%s", k, iss.name, serial.Text(16), tc.name))
				}
			}
			if ty.name != "data" {
				for si, shape := range c05Shapes() {
					if !c.Next() {
						continue
					}
					c05Check(c, k, cert, ty, shape, nil, fmt.Sprintf("key=k%d issuer=%s serial=%s type=%s content-shape=%d", k, iss.name, serial.Text(16), ty.name, si))
				}
			}
		}
		// two signing operations overlapping: while the first is inside its signer, a second one
		// (other content, other type) runs to completion; both outputs must be what they are alone
		c05Overlap(c, k, cert)
	}
}

// nestingSigner runs another complete signing operation from inside Sign, before signing.
type nestingSigner struct {
	inner crypto.Signer
	hook  func()
	done  bool
}

func (s *nestingSigner) Public() crypto.PublicKey { return s.inner.Public() }
func (s *nestingSigner) Sign(r io.Reader, d []byte, o crypto.SignerOpts) ([]byte, error) {
	if !s.done {
		s.done = true
		s.hook()
	}
	return s.inner.Sign(r, d, o)
}

func c05Overlap(c *hx.Ctx, k int, cert *x509.Certificate) {
	types := c05Types()
	for ai, ta := range types {
		for _, tb := range []c05Type{types[(ai+1)%len(types)], ta} {
			if !c.Next() {
				continue
			}
			ca, cb := c05Content(64, ta.name == "data"), c05Content(257, tb.name == "data")
			var blobA, blobB []byte
			var errA, errB error
			ns := &nestingSigner{inner: memoSignerFor(k)}
			ns.hook = func() { blobB, errB = pkcs7.SignPKCS7(memoSignerFor(k), cert, tb.oid, cb) }
			if pn := hx.Try(func() { blobA, errA = pkcs7.SignPKCS7(ns, cert, ta.oid, ca) }); pn != nil || errA != nil || errB != nil {
				c.Violation("C05 overlapping signing operations fail", map[string]any{"error": fmt.Sprint(errA, errB, pn)})
				continue
			}
			okAll := true
			for _, x := range []struct {
				blob, content []byte
				ty            c05Type
				who           string
			}{{blobA, ca, ta, "the operation that was inside its signer"}, {blobB, cb, tb, "the operation that ran meanwhile"}} {
				det := x.content
				if x.ty.name != "data" {
					det = nil
				}
				sd, perr := refp7.Parse(x.blob)
				if perr != nil {
					okAll = false
					c.Violation("C05 overlapping signing operations: output of "+x.who+" does not parse", nil)
					continue
				}
				sum := sha256.Sum256(x.content)
				if v := sd.Valid(cert, det); !v.OK || !bytes.Equal(sd.Signers[0].MessageDigest(), sum[:]) || !bytes.Equal(sd.Signers[0].ContentType(), x.ty.raw) {
					okAll = false
					c.Outcome("violation:overlap")
					c.Violation("C05 overlapping signing operations: output of "+x.who+" is not a valid signature over its own content ("+v.Reason+")", map[string]any{"types": []string{ta.name, tb.name}, "blob": hx8(x.blob)})
				}
			}
			if okAll {
				c.Outcome("overlap-ok")
				c.Nontrivial([]byte("overlap"), []byte(ta.name), []byte(tb.name), []byte{byte(k)})
			}
		}
	}
}
