//go:build !verifsched

package props

import (
	"bytes"
	"encoding/binary"
	"fmt"
	"strconv"
	"strings"
	"testing/fstest"
	"time"

	"github.com/foxboron/go-uefi/efi"
	"github.com/foxboron/go-uefi/efi/device"
	"github.com/foxboron/go-uefi/efi/efitest"
	efifs "github.com/foxboron/go-uefi/efi/fs"
	"github.com/foxboron/go-uefi/efivar"
	"github.com/foxboron/go-uefi/efivarfs/testfs"

	"verif/gen/dpgen"
	"verif/internal/hx"
	"verif/ref/refesl"
)

const efivarsDir = "/sys/firmware/efi/efivars/"
const globalGUIDText = "8be4df61-93ca-11d2-aa0d-00e098032b8c"

func init() {
	hx.Register(&hx.Prop{
		ID:    "C18",
		Level: "exploration",
		Rule: "boot order: all 65536 boot numbers, each alone, and all lists of length 0..4 over {0000,0001,001A,00FF,ABCD,FFFF} in every order, repeats included, and lists of 5/64/300 entries with one number repeated or two alternating; the store holds BootOrder and one load option per number under the firmware's name Boot+4 upper-case hex digits; " +
			"oracle: GetBootOrder returns exactly those names in order and GetBootEntry(name) yields the description stored for that number, through the Efivarfs methods and through the package-level twins efi.GetBootOrder / efi.GetBootEntry over the same files. " +
			"load options: attributes x descriptions x every ordered node sequence of length 0..3 over {PCI, ACPI, HD-MBR, HD-GPT, File, FvFile, USB} x per-kind field values, built by an independent encoder; oracle: every field recovered, " +
			"File/HD nodes parse as the UEFI text form with equal field values; every BMP character and non-BMP characters across the planes as file path and description; every sequence of 1..3 file-path nodes over 15 path names with/without separators at either end; every ordered pair of 15 options decoded into one reused EFILoadOption value (second decode exact, the node slice kept from the first unchanged). non-trivial = all oracle clauses evaluated; distinct = distinct encoded input",
		Assumptions: []string{"independent encoder dpgen from UEFI 2.8 sections 3.1.3/10.3", "HD text form per UEFI 10.6.1.6 compared by value (padding and hex case not judged)"},
		Units: func(tier string) []string {
			u := []string{"bootnum#0", "bootnum#1", "bootnum#2", "bootnum#3", "bootnum#4", "bootnum#5", "bootnum#6", "bootnum#7", "bootlists"}
			for i := range c18Kinds {
				u = append(u, "loadopt#"+strconv.Itoa(i))
			}
			return append(u, "hdtext", "pathchars", "reuse", "filepaths")
		},
		Run:    c18Run,
		Budget: dur(3*time.Minute, 15*time.Minute),
	})
}

func bootName(n uint16) string { return fmt.Sprintf("Boot%04X", n) }

func c18Store(order []uint16) (fstest.MapFS, map[uint16]string) {
	m := fstest.MapFS{}
	bo := []byte{7, 0, 0, 0}
	desc := map[uint16]string{}
	for _, n := range order {
		bo = binary.LittleEndian.AppendUint16(bo, n)
		d := fmt.Sprintf("entry-%d", n)
		desc[n] = d
		lo := dpgen.LoadOption{Attributes: 1, Description: d, Nodes: []dpgen.Node{{Kind: "File", Path: "\\EFI\\x.efi"}}}
		if n%2 == 1 {
			// optional data behind the device path (an EFISTUB kernel command line, say)
			lo.Optional = dpgen.UTF16Z("root=/dev/sda2 rw quiet")
		}
		m[efivarsDir+bootName(n)+"-"+globalGUIDText] = &fstest.MapFile{Data: append([]byte{7, 0, 0, 0}, lo.Bytes()...)}
	}
	m[efivarsDir+"BootOrder-"+globalGUIDText] = &fstest.MapFile{Data: bo}
	return m, desc
}

func c18Order(c *hx.Ctx, order []uint16) {
	if !c.Next() {
		return
	}
	files, desc := c18Store(order)
	var names []string
	var firstFail string
	p := hx.Try(func() {
		fs := testfs.NewTestFS().With(files).Open()
		names = fs.GetBootOrder()
		if len(names) != len(order) {
			firstFail = fmt.Sprintf("returned %d names for %d entries", len(names), len(order))
			return
		}
		for i, n := range order {
			if names[i] != bootName(n) {
				if strings.EqualFold(names[i], bootName(n)) {
					firstFail = "name is not in the firmware's upper-case form"
				} else {
					firstFail = "wrong name"
				}
				// keep going to see whether it resolves anyway
			}
			e, err := fs.GetBootEntry(names[i])
			if err != nil {
				firstFail = "returned name does not resolve through the boot-entry accessor"
				if !strings.EqualFold(names[i], bootName(n)) {
					firstFail = "wrong name for a boot number"
				} else if names[i] != bootName(n) {
					firstFail = "returned name (lower-case hex) does not resolve through the boot-entry accessor"
				}
				return
			}
			if e.Description != desc[n] {
				firstFail = "boot entry resolved to another variable"
				return
			}
		}
		// the package-level (legacy) twins over the same files
		efifs.SetFS(efitest.FromMapFS(files))
		lnames := efi.GetBootOrder()
		if len(lnames) != len(order) {
			firstFail = fmt.Sprintf("package-level GetBootOrder returned %d names for %d entries", len(lnames), len(order))
			names = lnames
			return
		}
		for i, n := range order {
			if lnames[i] != bootName(n) {
				firstFail = "package-level GetBootOrder: name is not the firmware's name of the variable"
				names = lnames
			}
			e, err := efi.GetBootEntry(lnames[i])
			if err != nil || e == nil {
				firstFail = "package-level GetBootOrder: returned name does not resolve through the package-level boot-entry accessor"
				names = lnames
				return
			}
			if e.Description != desc[n] {
				firstFail = "package-level boot entry resolved to another variable"
				return
			}
		}
	})
	if p != nil {
		c.Outcome("panic")
		c.Violation("C18 boot order: ends in "+p.String(), map[string]any{"order": order})
		return
	}
	if firstFail != "" {
		c.Outcome("violation")
		c.Violation("C18 boot order: "+firstFail, map[string]any{"order_hex": fmt.Sprintf("%04X", order), "returned": names})
		return
	}
	c.Outcome("order-ok")
	b := make([]byte, 0, 2*len(order))
	for _, n := range order {
		b = binary.LittleEndian.AppendUint16(b, n)
	}
	c.Nontrivial([]byte("order"), b)
}

// ---- load options ----

func c18NodeVariants(kind string, thorough bool) []dpgen.Node {
	u8 := []uint8{0, 1, 0x7f, 0x80, 0xff}
	var out []dpgen.Node
	sigG := [16]byte{0xf8, 0xda, 0x34, 0xa8, 0x99, 0x08, 0xaa, 0x44, 0x9b, 0x1c, 0x01, 0x02, 0x03, 0x04, 0x05, 0x06}
	sigM := [16]byte{0x78, 0x56, 0x34, 0x12}
	switch kind {
	case "PCI":
		for _, f := range u8 {
			for _, d := range u8 {
				if f != d || thorough || f == 0 {
					out = append(out, dpgen.Node{Kind: kind, Function: f, Device: d})
				}
			}
		}
	case "ACPI":
		for _, h := range []uint32{0, 0x0a0341d0, 0xffffffff} {
			for _, u := range []uint32{0, 1, 0x80000000} {
				out = append(out, dpgen.Node{Kind: kind, HID: h, UID: u})
			}
		}
	case "HD-GPT", "HD-MBR":
		for _, pn := range []uint32{1, 2, 0x80, 0xffffffff} {
			for _, st := range []uint64{0, 0x800, 1<<63 + 5} {
				for _, sz := range []uint64{1, 0x100000, 1<<64 - 1} {
					n := dpgen.Node{Kind: "HD", PartNum: pn, Start: st, Size: sz}
					if kind == "HD-GPT" {
						n.Sig, n.MBRType, n.SigType = sigG, 2, 2
					} else {
						n.Sig, n.MBRType, n.SigType = sigM, 1, 1
					}
					out = append(out, n)
				}
			}
		}
		// format and signature type that differ (swapped fields show only here): MBR disk without
		// signature, GPT disk carrying a 32-bit signature, MBR disk carrying a GUID
		for _, combo := range [][2]uint8{{1, 0}, {2, 1}, {1, 2}, {2, 0}} {
			n := dpgen.Node{Kind: "HD", PartNum: 1, Start: 0x800, Size: 0x100000, MBRType: combo[0], SigType: combo[1]}
			if combo[1] == 2 {
				n.Sig = sigG
			} else if combo[1] == 1 {
				n.Sig = sigM
			}
			out = append(out, n)
		}
	case "File":
		for _, p := range []string{"\\EFI\\BOOT\\BOOTX64.EFI", "a", "\\\U0001F600\\é.efi", "\\EFI\\\u4e00\\grub\u0100.efi"} {
			out = append(out, dpgen.Node{Kind: kind, Path: p})
		}
	case "FvFile":
		out = append(out, dpgen.Node{Kind: kind, FvName: sigG}, dpgen.Node{Kind: kind, FvName: [16]byte{}})
	case "Vendor":
		out = append(out, dpgen.Node{Kind: kind, Vendor: sigG}, dpgen.Node{Kind: kind, Vendor: [16]byte{0x53, 0x47, 0xc1, 0xe0, 0xbe, 0xf9, 0xd2, 0x11, 0x9a, 0x0c, 0x00, 0x90, 0x27, 0x3f, 0xc1, 0x4d}})
	case "USB":
		for _, p := range u8 {
			for _, i := range []uint8{0, 1, 0xff} {
				out = append(out, dpgen.Node{Kind: kind, Port: p, Iface: i})
			}
		}
	}
	if !thorough && len(out) > 6 {
		// quick: boundary subset, evenly spread
		step := len(out) / 6
		var o []dpgen.Node
		for i := 0; i < len(out); i += step {
			o = append(o, out[i])
		}
		out = o
	}
	return out
}

var c18Kinds = []string{"PCI", "ACPI", "HD-MBR", "HD-GPT", "File", "FvFile", "USB", "Vendor"}

func c18CheckNode(want dpgen.Node, got device.EFIDevicePaths) string {
	hdrOK := func(h device.EFIDevicePath, t, st byte) bool {
		wb := want.Bytes()
		return byte(h.Type) == t && byte(h.SubType) == st && h.Length[0] == wb[2] && h.Length[1] == wb[3]
	}
	switch want.Kind {
	case "PCI":
		g, ok := got.(device.PCIDevicePath)
		if !ok {
			return fmt.Sprintf("PCI node decoded as %T", got)
		}
		if !hdrOK(g.EFIDevicePath, 1, 1) || g.Function[0] != want.Function || g.Device[0] != want.Device {
			return "PCI node fields differ"
		}
	case "ACPI":
		g, ok := got.(device.ACPIDevicePath)
		if !ok {
			return fmt.Sprintf("ACPI node decoded as %T", got)
		}
		if !hdrOK(g.EFIDevicePath, 2, 1) || binary.LittleEndian.Uint32(g.HID[:]) != want.HID || binary.LittleEndian.Uint32(g.UID[:]) != want.UID {
			return "ACPI node fields differ"
		}
	case "HD":
		g, ok := got.(device.HardDriveMediaDevicePath)
		if !ok {
			return fmt.Sprintf("hard-drive node decoded as %T", got)
		}
		if !hdrOK(g.EFIDevicePath, 4, 1) || g.PartitionNumber != want.PartNum || binary.LittleEndian.Uint64(g.PartitionStart[:]) != want.Start ||
			binary.LittleEndian.Uint64(g.PartitionSize[:]) != want.Size || g.PartitionSignature != want.Sig || g.PartitionFormat != want.MBRType || g.SignatureType != want.SigType {
			return "hard-drive node fields differ"
		}
		return c18CheckHDText(want, g.Format())
	case "File":
		g, ok := got.(device.FileTypeMediaDevicePath)
		if !ok {
			return fmt.Sprintf("file-path node decoded as %T", got)
		}
		if !hdrOK(g.EFIDevicePath, 4, 4) || g.PathName != want.Path {
			return "file-path node fields differ"
		}
		if g.Format() != "File("+want.Path+")" {
			return "file-path node text form is not File(<path>)"
		}
	case "FvFile":
		g, ok := got.(device.FirmwareFielMediaDevicePath)
		if !ok {
			return fmt.Sprintf("firmware-file node decoded as %T", got)
		}
		if !hdrOK(g.EFIDevicePath, 4, 6) || g.FirmwareFileName != want.FvName {
			return "firmware-file node fields differ"
		}
	case "Vendor":
		g, ok := got.(device.VendorMessagingDevicePath)
		if !ok {
			return fmt.Sprintf("vendor messaging node decoded as %T", got)
		}
		if !hdrOK(g.EFIDevicePath, 3, 10) || wire(g.Guid) != refesl.GUID(want.Vendor) {
			return "vendor messaging node: GUID is not read in the in-structure layout (Data1..3 little-endian, Data4)"
		}
	case "USB":
		g, ok := got.(device.USBMessagingDevicePath)
		if !ok {
			return fmt.Sprintf("USB node decoded as %T", got)
		}
		if !hdrOK(g.EFIDevicePath, 3, 5) || g.USBParentPortNumber != want.Port || g.Interface != want.Iface {
			return "USB node fields differ"
		}
	}
	return ""
}

// c18CheckHDText parses HD(Partition,Type,Signature[,Start,Size]) and compares by value.
func c18CheckHDText(want dpgen.Node, text string) string {
	if !strings.HasPrefix(text, "HD(") || !strings.HasSuffix(text, ")") {
		return "hard-drive text form is not HD(...)"
	}
	f := strings.Split(text[3:len(text)-1], ",")
	if len(f) != 5 && len(f) != 3 {
		return "hard-drive text form does not have 3 or 5 fields"
	}
	num := func(s string) (uint64, bool) {
		s = strings.TrimSpace(s)
		v, err := strconv.ParseUint(s, 0, 64)
		return v, err == nil
	}
	if v, ok := num(f[0]); !ok || v != uint64(want.PartNum) {
		return "hard-drive text form: partition number differs"
	}
	typ := strings.TrimSpace(f[1])
	sig := strings.TrimSpace(f[2])
	switch want.MBRType {
	case 1:
		if typ != "MBR" {
			return "hard-drive text form: type is not MBR"
		}
	case 2:
		if typ != "GPT" {
			return "hard-drive text form: type is not GPT"
		}
	}
	switch want.SigType {
	case 2:
		// signature is an EFI_GUID stored in wire order
		var w [16]byte = want.Sig
		canon := refFormat(unwire(w))
		if !strings.EqualFold(sig, canon) {
			return "hard-drive text form: GPT signature is not the GUID text of the stored EFI_GUID"
		}
	case 1:
		v, ok := num(sig)
		if !ok || v != uint64(binary.LittleEndian.Uint32(want.Sig[:4])) {
			return "hard-drive text form: MBR signature is not the 32-bit integer"
		}
	}
	if len(f) == 5 {
		if v, ok := num(f[3]); !ok || v != want.Start {
			return "hard-drive text form: start differs"
		}
		if v, ok := num(f[4]); !ok || v != want.Size {
			return "hard-drive text form: size differs"
		}
	}
	return ""
}

// c18Compare compares a decoded option with the fields it was built from.
func c18Compare(e *device.EFILoadOption, lo dpgen.LoadOption) string {
	if uint32(e.Attributes) != lo.Attributes {
		return "attributes differ"
	}
	if int(e.FilePathListLength) != len(lo.PathList()) {
		return "path-list length differs"
	}
	if e.Description != lo.Description {
		return "description differs"
	}
	if len(e.FilePath) != len(lo.Nodes) {
		return "node count differs"
	}
	for i, n := range lo.Nodes {
		if w := c18CheckNode(n, e.FilePath[i]); w != "" {
			return w
		}
	}
	return ""
}

// c18Reuse decodes a, then b, into the same EFILoadOption value (what a loop over Boot#### does)
// and checks that the value then describes b and that what the caller kept from a still describes a.
func c18Reuse(c *hx.Ctx, a, b dpgen.LoadOption) {
	if !c.Next() {
		return
	}
	var e device.EFILoadOption
	var why string
	var err error
	p := hx.Try(func() {
		if err = e.Unmarshal(bytes.NewBuffer(a.Bytes())); err != nil {
			return
		}
		kept := e // shallow copy: shares whatever the decoder shares
		keptNodes := e.FilePath
		if err = e.Unmarshal(bytes.NewBuffer(b.Bytes())); err != nil {
			return
		}
		if w := c18Compare(&e, b); w != "" {
			why = "decoding into a value that already holds an option: " + w
			return
		}
		kept.FilePath = keptNodes
		if w := c18Compare(&kept, a); w != "" {
			why = "a previously decoded option changes when the same variable is decoded into again: " + w
		}
	})
	detail := map[string]any{"first": hx8(a.Bytes()), "second": hx8(b.Bytes())}
	switch {
	case p != nil:
		c.Outcome("panic")
		c.Violation("C18 load option: decoding ends in "+p.String(), detail)
	case err != nil:
		c.Outcome("decode-error")
		detail["error"] = err.Error()
		c.Violation("C18 load option: well-formed option rejected", detail)
	case why != "":
		c.Outcome("violation")
		c.Violation("C18 load option: "+why, detail)
	default:
		c.Outcome("reuse-ok")
		c.Nontrivial(a.Bytes(), b.Bytes())
	}
}

func c18LoadOption(c *hx.Ctx, lo dpgen.LoadOption) {
	if !c.Next() {
		return
	}
	in := lo.Bytes()
	if c.Index()%20000 == 1 {
		var ks []string
		for _, n := range lo.Nodes {
			ks = append(ks, n.Kind)
		}
		c.Sample(map[string]any{"nodes": ks, "description": lo.Description, "attributes": lo.Attributes, "input": hx8(in)})
	}
	var e device.EFILoadOption
	var err error
	var why string
	p := hx.Try(func() {
		err = e.Unmarshal(bytes.NewBuffer(append([]byte{}, in...)))
		if err != nil {
			return
		}
		why = c18Compare(&e, lo)
	})
	detail := map[string]any{"input": hx8(in), "nodes": fmt.Sprintf("%+v", lo.Nodes), "description": lo.Description}
	switch {
	case p != nil:
		c.Outcome("panic")
		c.Violation("C18 load option: decoding ends in "+p.String(), detail)
	case err != nil:
		c.Outcome("decode-error")
		detail["error"] = err.Error()
		c.Violation("C18 load option: well-formed option rejected", detail)
	case why != "":
		c.Outcome("violation")
		c.Violation("C18 load option: "+why, detail)
	default:
		c.Outcome("loadopt-ok")
		c.Nontrivial(in)
	}
}

func c18Run(c *hx.Ctx, tier, unit string) {
	thorough := tier == "thorough"
	switch {
	case strings.HasPrefix(unit, "bootnum#"):
		k, _ := strconv.Atoi(strings.TrimPrefix(unit, "bootnum#"))
		for n := k * 8192; n < (k+1)*8192; n++ {
			if n == k*8192+0x1A {
				c.Sample(map[string]any{"boot_number": fmt.Sprintf("%04X", n), "stored_as": bootName(uint16(n))})
			}
			c18Order(c, []uint16{uint16(n)})
		}
	case unit == "bootlists":
		alpha := []uint16{0x0000, 0x0001, 0x001A, 0x00FF, 0xABCD, 0xFFFF}
		var rec func(cur []uint16)
		rec = func(cur []uint16) {
			c18Order(c, cur)
			if len(cur) == 4 {
				return
			}
			// an entry may occur more than once (firmware does not forbid it): every entry yields a name
			for _, a := range alpha {
				rec(append(append([]uint16{}, cur...), a))
			}
		}
		rec(nil)
		// a caller that filled in the exported "Boot####" template to read one entry through the generic
		// accessor: the names of BootOrder are made from the numbers, not from that variable
		{
			saved := efivar.BootEntry.Name
			efivar.BootEntry.Name = "Boot001A"
			for _, l := range [][]uint16{{3, 0x1a, 0x2001}, {0}, {0xffff, 0x1a}} {
				c18Order(c, l)
			}
			efivar.BootEntry.Name = saved
		}
		// long lists: one number repeated, two alternating, a run in the middle
		for _, n := range []int{5, 64, 300} {
			same := make([]uint16, n)
			alt := make([]uint16, n)
			for i := range same {
				same[i] = 0x001A
				alt[i] = uint16(i % 2)
			}
			c18Order(c, same)
			c18Order(c, alt)
			c18Order(c, append(append([]uint16{7}, same...), 9))
		}
	case strings.HasPrefix(unit, "loadopt#"):
		k, _ := strconv.Atoi(strings.TrimPrefix(unit, "loadopt#"))
		variants := map[string][]dpgen.Node{}
		for _, kd := range c18Kinds {
			variants[kd] = c18NodeVariants(kd, thorough)
		}
		attrs := []uint32{0, 1, 0xFFFFFFFF}
		descs := []string{"", "A", "Linux Boot Manager", "\U0001F600 boot é", "Arch\u3000Linux A\u0100"}
		// sequences whose first kind is c18Kinds[k]; the empty sequence belongs to shard 0
		var seqs [][]string
		if k == 0 {
			seqs = append(seqs, nil)
		}
		first := c18Kinds[k]
		seqs = append(seqs, []string{first})
		for _, b := range c18Kinds {
			seqs = append(seqs, []string{first, b})
			for _, d := range c18Kinds {
				seqs = append(seqs, []string{first, b, d})
			}
		}
		for _, seq := range seqs {
			// product of variants along the sequence; for length 3 the third node uses its first variant only in quick
			var rec func(i int, cur []dpgen.Node)
			rec = func(i int, cur []dpgen.Node) {
				if c.Expired() {
					return
				}
				if i == len(seq) {
					for ai, a := range attrs {
						for di, d := range descs {
							if len(seq) >= 2 && (ai+di)%len(attrs) != 0 && !(thorough && len(seq) == 2) {
								continue // pairwise-style thinning of attrs x descs for longer sequences
							}
							lo := dpgen.LoadOption{Attributes: a, Description: d, Nodes: append([]dpgen.Node{}, cur...)}
							c18LoadOption(c, lo)
							if (ai+di)%2 == 0 {
								// the same option carrying optional data behind its device path
								lo.Optional = []byte{0x72, 0, 0x6f, 0, 0x6f, 0, 0x74, 0, 0x3d, 0, 0, 0, 0xff}
								c18LoadOption(c, lo)
							}
						}
					}
					return
				}
				vs := variants[seq[i]]
				if i == 2 || (i == 1 && len(seq) == 3) {
					if len(vs) > 2 {
						vs = []dpgen.Node{vs[0], vs[len(vs)-1]}
					}
				}
				for _, v := range vs {
					rec(i+1, append(cur, v))
				}
			}
			rec(0, nil)
		}
	case unit == "pathchars":
		// every UTF-16 code unit value that is a character, and non-BMP characters across the planes,
		// as part of a file path and as the description
		one := func(r rune) {
			c18LoadOption(c, dpgen.LoadOption{Attributes: 1, Description: string(r), Nodes: []dpgen.Node{{Kind: "File", Path: "\\" + string(r) + "x"}}})
		}
		for r := rune(1); r <= 0xFFFF; r++ {
			if r >= 0xD800 && r <= 0xDFFF {
				continue
			}
			one(r)
		}
		for r := rune(0x10000); r <= 0x10FFFF; r += 0x3F1 {
			one(r)
		}
		one(0x10FFFF)
	case unit == "filepaths":
		// a path split over consecutive file-path nodes (the specification allows it): every sequence of
		// one to three nodes over path names with and without separators at either end, empty, only
		// separators, forward slashes, dots. Each node's name is recovered as it was encoded.
		names := []string{"\\", "\\EFI\\", "\\EFI", "EFI\\", "EFI", "", "\\\\", "\\\\x", "x\\\\", "/", "/EFI/", ".", "..\\", " ", "\\ "}
		var rec func(cur []dpgen.Node)
		rec = func(cur []dpgen.Node) {
			if len(cur) > 0 {
				c18LoadOption(c, dpgen.LoadOption{Attributes: 1, Description: "split path", Nodes: append([]dpgen.Node{}, cur...)})
				c18LoadOption(c, dpgen.LoadOption{Attributes: 1, Description: "split path behind a hard drive", Nodes: append([]dpgen.Node{c18NodeVariants("HD-GPT", false)[0]}, cur...)})
			}
			if len(cur) == 3 {
				return
			}
			for _, n := range names {
				rec(append(cur, dpgen.Node{Kind: "File", Path: n}))
			}
		}
		rec(nil)
	case unit == "reuse":
		var opts []dpgen.LoadOption
		for _, kd := range c18Kinds {
			vs := c18NodeVariants(kd, false)
			opts = append(opts, dpgen.LoadOption{Attributes: 1, Description: "one " + kd, Nodes: []dpgen.Node{vs[0]}})
			opts = append(opts, dpgen.LoadOption{Attributes: 0x101, Description: kd, Nodes: []dpgen.Node{c18NodeVariants("PCI", false)[1], vs[len(vs)-1], c18NodeVariants("File", false)[0]}})
		}
		opts = append(opts, dpgen.LoadOption{Attributes: 0, Description: ""})
		for _, a := range opts {
			for _, b := range opts {
				c18Reuse(c, a, b)
			}
		}
	case unit == "hdtext":
		// every partition format / signature type combination the text form defines, plus partition number 0
		for _, kd := range []string{"HD-GPT", "HD-MBR"} {
			for _, n := range c18NodeVariants(kd, true) {
				for _, pn := range []uint32{0, n.PartNum} {
					n.PartNum = pn
					c18LoadOption(c, dpgen.LoadOption{Attributes: 1, Description: "d", Nodes: []dpgen.Node{n}})
				}
			}
		}
	}
}
