//go:build !verifsched

package props

import (
	"bytes"
	"crypto/sha256"
	"crypto/x509/pkix"
	"encoding/pem"
	"fmt"
	"math/big"
	"os"
	"sort"
	"strconv"
	"strings"
	"time"

	"github.com/foxboron/go-uefi/efi/signature"
	"github.com/foxboron/go-uefi/efi/util"

	"verif/internal/hx"
	"verif/keys"
	"verif/ref/refesl"
	"verif/weakeq"
)

// ---- universe ----

type c09Datum struct {
	name string
	b    []byte
}

type c09Type struct {
	name string
	g    util.EFIGUID
	data []string // names of the data values offered under this type
}

var (
	c09Data  map[string][]byte
	c09Types []c09Type
	c09Own   = []struct {
		name string
		g    util.EFIGUID
	}{{"O1", unwire(ownerA)}, {"O2", unwire(ownerB)}}
)

func c09Init() {
	if c09Data != nil {
		return
	}
	ca := keys.Cert(pkix.Name{CommonName: "verif-ca-A"}, big.NewInt(0x51), &keys.K(1).PublicKey, keys.K(1))
	cb := keys.Cert(pkix.Name{CommonName: "verif-ca-B"}, big.NewInt(0x52), &keys.K(1).PublicKey, keys.K(1))
	cc := keys.Cert(pkix.Name{CommonName: "verif-ca-C-with-a-longer-name"}, big.NewInt(0x53), &keys.K(1).PublicKey, keys.K(1))
	if len(ca.Raw) != len(cb.Raw) || len(ca.Raw) == len(cc.Raw) {
		panic("c09: certificate length assumptions broken")
	}
	c09Data = map[string][]byte{
		"h1": fill(32, 0x10), "h2": fill(32, 0x80), "h31": fill(31, 0x10), "s20": fill(20, 0x33),
		"certA-DER": ca.Raw, "certA-PEM": pem.EncodeToMemory(&pem.Block{Type: "CERTIFICATE", Bytes: ca.Raw}),
		// PEM as tools write it: explanatory text before the armour (openssl pkcs12 "Bag Attributes")
		"certA-PEM-with-preamble": append([]byte("Bag Attributes\n    friendlyName: verif\nsubject=CN = verif-ca-A\n\n"), pem.EncodeToMemory(&pem.Block{Type: "CERTIFICATE", Bytes: ca.Raw})...),
		// the label older tools write ("X509 CERTIFICATE"; "TRUSTED CERTIFICATE" is another); the library
		// stores the DER of whatever PEM block it is given
		"certA-PEM-other-label": pem.EncodeToMemory(&pem.Block{Type: "X509 CERTIFICATE", Bytes: ca.Raw}),
		// a bundle (leaf followed by another certificate and a trailing comment): the first block counts
		"certA-PEM-bundle": append(append(pem.EncodeToMemory(&pem.Block{Type: "CERTIFICATE", Bytes: ca.Raw}), pem.EncodeToMemory(&pem.Block{Type: "CERTIFICATE", Bytes: cb.Raw})...), []byte("# end of bundle\n")...),
		"certB-DER":        cb.Raw, "certC-DER": cc.Raw,
	}
	// data exactly as long as the PEM text of certificate C: a list of that signature size exists when
	// the PEM form is appended, and the certificate must still be stored (as DER, in a list of its size)
	// zero-length data (accepted under the X.509 type): handed over as nil and as an empty non-nil slice,
	// which are the same value
	c09Data["zero-length (nil)"] = nil
	c09Data["zero-length (empty)"] = []byte{}
	c09Data["certC-PEM"] = pem.EncodeToMemory(&pem.Block{Type: "CERTIFICATE", Bytes: cc.Raw})
	c09Data["blob-as-long-as-certC-PEM"] = fill(len(c09Data["certC-PEM"]), 0x47)
	c09Types = []c09Type{
		{"SHA256", signature.CERT_SHA256_GUID, []string{"h1", "h2", "h31", "certA-DER"}},
		{"X509", signature.CERT_X509_GUID, []string{"certA-DER", "certA-PEM", "certA-PEM-with-preamble", "certA-PEM-other-label", "certA-PEM-bundle", "certB-DER", "certC-DER", "h1", "certC-PEM", "blob-as-long-as-certC-PEM", "zero-length (nil)", "zero-length (empty)"}},
		{"SHA1", signature.CERT_SHA1_GUID, []string{"s20", "h1"}},
		{"UNKNOWN", util.EFIGUID{Data1: 0xdeadbeef, Data2: 1, Data3: 2, Data4: [8]byte{3, 4, 5, 6, 7, 8, 9, 10}}, []string{"h1"}},
	}
}

// normal form of data under a type: PEM certificates are stored as DER
func c09Norm(t c09Type, b []byte) []byte {
	if t.name == "X509" {
		if blk, _ := pem.Decode(b); blk != nil {
			return blk.Bytes
		}
	}
	return b
}

// ---- operations ----

type c09Op struct {
	name string
	kind string // append remove appendlist appenddb encdec
	t    *c09Type
	own  int
	data string
	lst  []string // for appendlist / appenddb: list-level AppendBytes sequence "O1:certA-DER"
	ltyp *c09Type
}

func c09Ops() []c09Op {
	c09Init()
	var ops []c09Op
	for ti := range c09Types {
		t := &c09Types[ti]
		for _, d := range t.data {
			for oi := range c09Own {
				ops = append(ops, c09Op{name: fmt.Sprintf("Append(%s,%s,%s)", t.name, c09Own[oi].name, d), kind: "append", t: t, own: oi, data: d})
			}
		}
	}
	for ti := range c09Types {
		t := &c09Types[ti]
		for _, d := range t.data {
			for oi := range c09Own {
				ops = append(ops, c09Op{name: fmt.Sprintf("Remove(%s,%s,%s)", t.name, c09Own[oi].name, d), kind: "remove", t: t, own: oi, data: d})
			}
		}
	}
	x := &c09Types[1]
	s := &c09Types[0]
	ops = append(ops,
		c09Op{name: "AppendList(new X509 list, no entries)", kind: "appendlist", ltyp: x},
		c09Op{name: "AppendList(X509 list built by AppendBytes certA-DER, certB-DER)", kind: "appendlist", ltyp: x, lst: []string{"O1:certA-DER", "O1:certB-DER"}},
		c09Op{name: "AppendList(X509 list built by AppendBytes certA-DER, certC-DER)", kind: "appendlist", ltyp: x, lst: []string{"O1:certA-DER", "O1:certC-DER"}},
		c09Op{name: "AppendList(SHA256 list built by AppendBytes h1, h1, h2)", kind: "appendlist", ltyp: s, lst: []string{"O1:h1", "O1:h1", "O2:h2"}},
		c09Op{name: "AppendList(X509 list built by AppendBytes certA-PEM)", kind: "appendlist", ltyp: x, lst: []string{"O2:certA-PEM"}},
		c09Op{name: "AppendList(X509 list built by AppendBytes certB-DER, certA-PEM)", kind: "appendlist", ltyp: x, lst: []string{"O1:certB-DER", "O2:certA-PEM"}},
		// a list of a type the decoder does not handle, built by hand the way the specification lays it
		// out, with a signature header: valid, and the database must keep encoding to a well-formed stream
		c09Op{name: "AppendList(hand-built RSA2048 list with a 4-byte signature header, one entry)", kind: "appendlist", ltyp: nil},
		// list-level appends on a list the database already holds (its first list of that type): the
		// caller works on db[i] directly, e.g. on a list that was decoded empty but with a SignatureSize
		c09Op{name: "db's first X509 list .AppendBytes(O1,certA-DER)", kind: "listappend", t: x, own: 0, data: "certA-DER"},
		c09Op{name: "db's first X509 list .AppendBytes(O2,certC-DER)", kind: "listappend", t: x, own: 1, data: "certC-DER"},
		c09Op{name: "db's first SHA256 list .AppendBytes(O2,h2)", kind: "listappend", t: s, own: 1, data: "h2"},
		c09Op{name: "AppendDatabase(db with X509[certB-DER] and SHA256[h2])", kind: "appenddb"},
		c09Op{name: "encode-decode", kind: "encdec"},
	)
	return ops
}

// ---- views ----

type c09Entry struct {
	typ   util.EFIGUID
	owner util.EFIGUID
	data  string
}

type c09View struct {
	entries []c09Entry
	lists   []int // entries per list
}

func c09ViewOf(db *signature.SignatureDatabase) c09View {
	var v c09View
	for _, l := range *db {
		v.lists = append(v.lists, len(l.Signatures))
		for _, s := range l.Signatures {
			v.entries = append(v.entries, c09Entry{l.SignatureType, s.Owner, string(s.Data)})
		}
	}
	return v
}

func (v c09View) has(e c09Entry) int {
	n := 0
	for _, x := range v.entries {
		if x == e {
			n++
		}
	}
	return n
}

// canonical state key: the full structure, no abstraction
func c09Key(db *signature.SignatureDatabase) string {
	var sb strings.Builder
	for _, l := range *db {
		fmt.Fprintf(&sb, "L|%x|%d|%d|%d|%x|", wire(l.SignatureType), l.ListSize, l.HeaderSize, l.Size, l.SignatureHeader)
		for _, s := range l.Signatures {
			fmt.Fprintf(&sb, "E|%x|%x|", wire(s.Owner), s.Data)
		}
	}
	return sb.String()
}

// isSubseqPlusOne: after == before with exactly one element e inserted somewhere
func insertedOne(before, after []c09Entry, e c09Entry) bool {
	if len(after) != len(before)+1 {
		return false
	}
	for pos := 0; pos < len(after); pos++ {
		if after[pos] != e {
			continue
		}
		ok := true
		for i := range before {
			j := i
			if i >= pos {
				j = i + 1
			}
			if before[i] != after[j] {
				ok = false
				break
			}
		}
		if ok {
			return true
		}
	}
	return false
}

func sameEntries(a, b []c09Entry) bool {
	if len(a) != len(b) {
		return false
	}
	for i := range a {
		if a[i] != b[i] {
			return false
		}
	}
	return true
}

// ---- applying operations to the real database ----

type c09Res struct {
	err     error
	skipped bool // operation not enabled in this state
}

func c09BuildList(t *c09Type, seq []string) (*signature.SignatureList, []error) {
	l := signature.NewSignatureList(t.g)
	var errs []error
	for _, s := range seq {
		p := strings.SplitN(s, ":", 2)
		oi := 0
		if p[0] == "O2" {
			oi = 1
		}
		errs = append(errs, l.AppendBytes(c09Own[oi].g, c09Data[p[1]]))
	}
	return l, errs
}

func c09Apply(db *signature.SignatureDatabase, op c09Op) c09Res {
	switch op.kind {
	case "append":
		return c09Res{err: db.Append(op.t.g, c09Own[op.own].g, c09Data[op.data])}
	case "remove":
		return c09Res{err: db.Remove(op.t.g, c09Own[op.own].g, c09Data[op.data])}
	case "listappend":
		for _, l := range *db {
			if l.SignatureType == op.t.g {
				return c09Res{err: l.AppendBytes(c09Own[op.own].g, c09Data[op.data])}
			}
		}
		return c09Res{skipped: true}
	case "appendlist":
		if op.ltyp == nil {
			db.AppendList(&signature.SignatureList{SignatureType: signature.CERT_RSA2048_GUID, HeaderSize: 4, SignatureHeader: []byte{0xd1, 0xd2, 0xd3, 0xd4}, Size: 16 + 256, ListSize: 28 + 4 + 16 + 256,
				Signatures: []signature.SignatureData{{Owner: c09Own[0].g, Data: fill(256, 0x3b)}}})
			return c09Res{}
		}
		l, _ := c09BuildList(op.ltyp, op.lst)
		db.AppendList(l)
		return c09Res{}
	case "appenddb":
		o := signature.NewSignatureDatabase()
		o.Append(signature.CERT_X509_GUID, c09Own[0].g, c09Data["certB-DER"])
		o.Append(signature.CERT_SHA256_GUID, c09Own[1].g, c09Data["h2"])
		db.AppendDatabase(o)
		return c09Res{}
	case "encdec":
		for _, l := range *db {
			if l.SignatureType != signature.CERT_X509_GUID && l.SignatureType != signature.CERT_SHA256_GUID {
				return c09Res{skipped: true}
			}
		}
		n, err := signature.ReadSignatureDatabase(bytes.NewReader(db.Bytes()))
		if err != nil {
			return c09Res{err: err}
		}
		*db = n
		return c09Res{}
	}
	panic("unknown op")
}

// ---- oracle ----

// c09Check applies op to db (already in the pre-state) and judges the step.
// It returns a violation class ("" if none) and details.
func c09Check(db *signature.SignatureDatabase, op c09Op) (string, map[string]any, bool) {
	before := c09ViewOf(db)
	beforeKey := c09Key(db)
	var res c09Res
	if p := hx.Try(func() { res = c09Apply(db, op) }); p != nil {
		return op.name + ": ends in " + p.String(), map[string]any{"stack": p.Stack}, false
	}
	if res.skipped {
		return "", nil, true
	}
	after := c09ViewOf(db)
	afterKey := c09Key(db)
	d := map[string]any{"lists_before": before.lists, "lists_after": after.lists, "error": fmt.Sprint(res.err)}
	switch op.kind {
	case "append":
		raw := c09Data[op.data]
		norm := c09Norm(*op.t, raw)
		e := c09Entry{op.t.g, c09Own[op.own].g, string(norm)}
		expect := "ok"
		switch {
		case op.t.name == "UNKNOWN":
			expect = "error(unknown type)"
		case op.t.name == "SHA256" && len(raw) != 32:
			expect = "error(wrong size)"
		case before.has(e) > 0:
			expect = "error(duplicate)"
		}
		if expect != "ok" {
			if res.err == nil {
				return fmt.Sprintf("%s: expected %s, got success", op.name, expect), d, false
			}
			if afterKey != beforeKey {
				return fmt.Sprintf("%s: reports an error but changes the database", op.name), d, false
			}
			return "", nil, false
		}
		if res.err != nil {
			return fmt.Sprintf("%s: valid new entry rejected", op.name), d, false
		}
		if !insertedOne(before.entries, after.entries, e) {
			if after.has(c09Entry{op.t.g, c09Own[op.own].g, string(raw)}) > 0 && string(raw) != string(norm) {
				return fmt.Sprintf("%s: PEM input not stored as DER", op.name), d, false
			}
			return fmt.Sprintf("%s: success does not add exactly the one entry (others keeping content and order)", op.name), d, false
		}
	case "listappend":
		if res.skipped {
			return "", nil, false
		}
		e := c09Entry{op.t.g, c09Own[op.own].g, string(c09Norm(*op.t, c09Data[op.data]))}
		if res.err != nil {
			if afterKey != beforeKey {
				return fmt.Sprintf("%s: reports an error but changes the database", op.name), d, false
			}
			return "", nil, false
		}
		if !insertedOne(before.entries, after.entries, e) {
			return fmt.Sprintf("%s: success does not add exactly the one entry (others keeping content and order)", op.name), d, false
		}
	case "remove":
		raw := c09Data[op.data]
		e := c09Entry{op.t.g, c09Own[op.own].g, string(raw)}
		present := before.has(e) > 0
		if !present {
			// PEM form of a stored DER certificate: the statement is silent; either outcome, but consistent
			ne := c09Entry{op.t.g, c09Own[op.own].g, string(c09Norm(*op.t, raw))}
			if ne != e && before.has(ne) > 0 && res.err == nil {
				e = ne
				present = true
			}
		}
		if !present {
			if res.err == nil {
				return fmt.Sprintf("%s: removing an absent entry reports success", op.name), d, false
			}
			if afterKey != beforeKey {
				return fmt.Sprintf("%s: reports an error but changes the database", op.name), d, false
			}
			return "", nil, false
		}
		if res.err != nil {
			if afterKey != beforeKey {
				return fmt.Sprintf("%s: reports an error but changes the database", op.name), d, false
			}
			return fmt.Sprintf("%s: present entry not removed (error)", op.name), d, false
		}
		if !insertedOne(after.entries, before.entries, e) {
			return fmt.Sprintf("%s: success does not delete exactly one matching entry (others keeping content and order)", op.name), d, false
		}
		// a list that became empty must be dropped: count empty lists
		eb, ea := 0, 0
		for _, n := range before.lists {
			if n == 0 {
				eb++
			}
		}
		for _, n := range after.lists {
			if n == 0 {
				ea++
			}
		}
		if ea > eb {
			return fmt.Sprintf("%s: a list that became empty is not dropped", op.name), d, false
		}
	case "appendlist", "appenddb", "encdec":
		if op.kind == "encdec" {
			if res.err != nil {
				return "encode-decode: a database built through library operations does not decode", d, false
			}
			if afterKey != beforeKey {
				return "encode-decode: decoded database differs from the encoded one", d, false
			}
		} else {
			// existing entries keep content and order (prefix)
			if len(after.entries) < len(before.entries) || !sameEntries(before.entries, after.entries[:len(before.entries)]) {
				return op.name + ": existing entries changed", d, false
			}
		}
	}
	return "", nil, false
}

// c09Invariants are evaluated in every reached state.
// c09InitialDup counts, per entry, how often the initial state already held it in one list
// (a decoded stream may; the library's operations must not add to that).
var c09InitialDup = map[string]int{}

func c09Invariants(db *signature.SignatureDatabase) (string, map[string]any) {
	view := c09ViewOf(db)
	// queries agree with the view
	for ti := range c09Types {
		t := &c09Types[ti]
		for _, dn := range t.data {
			for oi := range c09Own {
				e := c09Entry{t.g, c09Own[oi].g, string(c09Data[dn])}
				want := view.has(e) > 0
				var g1, g2, g3 bool
				if p := hx.Try(func() {
					g1 = db.BytesExists(t.g, c09Own[oi].g, c09Data[dn])
					g2 = db.SigDataExists(t.g, &signature.SignatureData{Owner: c09Own[oi].g, Data: c09Data[dn]})
					sl := signature.NewSignatureList(t.g)
					sl.Signatures = []signature.SignatureData{{Owner: c09Own[oi].g, Data: c09Data[dn]}}
					sl.Size = uint32(len(c09Data[dn])) + 16
					sl.ListSize = 28 + sl.Size
					g3 = db.Exists(t.g, sl)
				}); p != nil {
					return "membership query ends in " + p.String(), nil
				}
				if g1 != want || g2 != want {
					return fmt.Sprintf("membership query (%s,%s) disagrees with the entry view: want %v", t.name, dn, want), map[string]any{"BytesExists": g1, "SigDataExists": g2}
				}
				if g3 != want {
					return fmt.Sprintf("list membership query Exists([%s,%s]) disagrees with the entry view: want %v", t.name, dn, want), map[string]any{"Exists": g3}
				}
			}
		}
	}
	// every stored entry is found by the entry-level queries, under its own type only
	for _, e := range view.entries {
		var g1 bool
		if p := hx.Try(func() { g1 = db.BytesExists(e.typ, e.owner, []byte(e.data)) }); p != nil || !g1 {
			return "a stored entry is not found by the membership query", map[string]any{"data_len": len(e.data)}
		}
	}
	for i, l := range *db {
		seen := map[string]bool{}
		for _, s := range l.Signatures {
			k := string(refBE(s.Owner)) + string(s.Data)
			if seen[k] && c09InitialDup[k] == 0 {
				return "a list holds two identical entries", map[string]any{"list": i}
			}
			seen[k] = true
			if uint32(len(s.Data))+16 != l.Size {
				return "an entry's data length + 16 differs from the list's SignatureSize", map[string]any{"list": i, "Size": l.Size, "data_len": len(s.Data)}
			}
		}
		if l.ListSize != 28+l.HeaderSize+uint32(len(l.Signatures))*l.Size {
			return "ListSize differs from 28 + HeaderSize + n*SignatureSize", map[string]any{"list": i, "ListSize": l.ListSize, "n": len(l.Signatures), "Size": l.Size}
		}
	}
	var enc []byte
	if p := hx.Try(func() { enc = db.Bytes() }); p != nil {
		return "encoding ends in " + p.String(), nil
	}
	ref, _, err := refesl.Decode(enc)
	if err != nil {
		return "database does not encode to a well-formed stream", map[string]any{"reference_error": err.Error(), "stream": hx8(enc)}
	}
	if ok, why := listsEqual(ref, libToRef(*db)); !ok {
		return "encoded stream does not carry the database's lists", map[string]any{"difference": why}
	}
	return "", nil
}

// ---- search ----

type c09Init0 struct {
	name string
	mk   func() *signature.SignatureDatabase
}

func c09Inits() []c09Init0 {
	c09Init()
	fromBytes := func(b []byte) *signature.SignatureDatabase {
		db, err := signature.ReadSignatureDatabase(bytes.NewReader(b))
		if err != nil {
			panic(err)
		}
		return &db
	}
	two := refesl.Encode([]refesl.List{
		refesl.Mk(refesl.X509, uint32(16+len(c09Data["certB-DER"])), refesl.Entry{Owner: ownerA, Data: c09Data["certB-DER"]}),
		refesl.Mk(refesl.X509, uint32(16+len(c09Data["certA-DER"])), refesl.Entry{Owner: ownerB, Data: c09Data["certA-DER"]}),
		refesl.Mk(refesl.SHA256, 48, refesl.Entry{Owner: ownerA, Data: c09Data["h1"]}, refesl.Entry{Owner: ownerB, Data: c09Data["h2"]}),
	})
	inits := []c09Init0{
		{"empty", func() *signature.SignatureDatabase { return signature.NewSignatureDatabase() }},
		{"decoded(X509[certB],X509[certA],SHA256[h1,h2])", func() *signature.SignatureDatabase { return fromBytes(two) }},
	}
	// a list long enough for size-dependent code paths (ten hashes, not in sorted order)
	var big []refesl.Entry
	for i := 10; i >= 1; i-- {
		o := ownerA
		if i%3 == 0 {
			o = ownerB
		}
		big = append(big, refesl.Entry{Owner: o, Data: fill(32, byte(0x10*i))})
	}
	bigStream := refesl.Encode([]refesl.List{refesl.Mk(refesl.SHA256, 48, big...), refesl.Mk(refesl.SHA256, 48, refesl.Entry{Owner: ownerA, Data: c09Data["h2"]})})
	inits = append(inits, c09Init0{"decoded(SHA256[10 unsorted hashes],SHA256[h2])", func() *signature.SignatureDatabase { return fromBytes(bigStream) }})
	// decoded streams a library-built database never has: an empty list with a real SignatureSize in
	// front of the list holding the entries, and a list holding the same entry twice
	emptyFirst := refesl.Encode([]refesl.List{refesl.Mk(refesl.X509, uint32(16+len(c09Data["certB-DER"]))), refesl.Mk(refesl.SHA256, 48), refesl.Mk(refesl.SHA256, 48, refesl.Entry{Owner: ownerA, Data: c09Data["h1"]}, refesl.Entry{Owner: ownerB, Data: c09Data["h2"]})})
	inits = append(inits, c09Init0{"decoded(X509[] with the SignatureSize of certB,SHA256[] with SignatureSize 48,SHA256[h1,h2])", func() *signature.SignatureDatabase { return fromBytes(emptyFirst) }})
	dup := refesl.Encode([]refesl.List{refesl.Mk(refesl.SHA256, 48, refesl.Entry{Owner: ownerA, Data: c09Data["h1"]}, refesl.Entry{Owner: ownerB, Data: c09Data["h2"]}, refesl.Entry{Owner: ownerA, Data: c09Data["h1"]}),
		refesl.Mk(refesl.X509, uint32(16+len(c09Data["certB-DER"])), refesl.Entry{Owner: ownerA, Data: c09Data["certB-DER"]})})
	inits = append(inits, c09Init0{"decoded(SHA256[h1,h2,h1],X509[certB])", func() *signature.SignatureDatabase { return fromBytes(dup) }})
	if b, err := os.ReadFile("/repo/tests/data/signatures/siglist/db.der.esl"); err == nil {
		if _, _, rerr := refesl.Decode(b); rerr == nil {
			inits = append(inits, c09Init0{"fixture db.der.esl", func() *signature.SignatureDatabase { return fromBytes(b) }})
		}
	}
	return inits
}

func c09Depth(tier string) int {
	if tier == "thorough" {
		return 5
	}
	return 3
}

func init() {
	hx.Register(&hx.Prop{
		ID:    "C09",
		Level: "model_checking",
		Rule: "explicit-state breadth-first search over the real SignatureDatabase: states reached by replaying operation lists on fresh instances, deduplicated on a 128-bit hash of the full structural dump (no abstraction); " +
			"alphabet = Append/Remove x {SHA256,X509,SHA1,unknown type} x 2 owners x data {32-byte hashes, 31-byte, 20-byte, certificate DER/PEM of equal and different lengths}, AppendList (empty list, lists built by list-level AppendBytes incl. different lengths and duplicates), AppendDatabase, encode-decode; " +
			"every new state is also reached with encoding and all membership queries called before every step (same state required); units beside the search: weak-equality twins of stored values, one list shared by two databases, a decoded database whose source buffer / slice the caller reuses; " +
			"per transition the step is judged against the ordered-entry view (result class; exactly one entry added/removed; others keep content and order; error => unchanged), and in every state: all membership queries over the universe, no duplicate in a list, size equations, reference decoder accepts Bytes(), decode(encode)==state",
		Assumptions: []string{"no separate model: the entry view is derived from the real object before and after each step", "removing by the PEM form of a stored DER certificate is not prescribed by the statement: both outcomes accepted if consistent"},
		Units: func(tier string) []string {
			var u []string
			ops := c09Ops()
			for ii := range c09Inits() {
				for oi := range ops {
					u = append(u, fmt.Sprintf("bfs#%d#%d", ii, oi))
				}
			}
			return append(u, "shared-list", "source-reused", "weakeq#SHA256#h1", "weakeq#X509#certA-DER", "weakeq#X509#certB-DER")
		},
		Run:        c09Run,
		SearchUnit: func(unit string) bool { return strings.HasPrefix(unit, "bfs#") },
		Bound: func(tier string) map[string]any {
			return map[string]any{"depth": c09Depth(tier), "operations": len(c09Ops()), "initial_states": len(c09Inits())}
		},
		Budget: dur(4*time.Minute, 30*time.Minute),
	})
}

func c09Run(c *hx.Ctx, tier, unit string) {
	c.NoOnly = true
	parts := strings.Split(unit, "#")
	if parts[0] == "shared-list" {
		c09SharedList(c)
		return
	}
	if parts[0] == "source-reused" {
		c09SourceReused(c)
		return
	}
	if parts[0] == "weakeq" {
		c09WeakEq(c, parts[1], parts[2])
		return
	}
	ii, _ := strconv.Atoi(parts[1])
	first, _ := strconv.Atoi(parts[2])
	ops := c09Ops()
	init0 := c09Inits()[ii]
	depth := c09Depth(tier)

	build := func(path []int) *signature.SignatureDatabase {
		db := init0.mk()
		for _, oi := range path {
			c09Apply(db, ops[oi])
		}
		return db
	}
	pathNames := func(path []int) []string {
		n := []string{"init: " + init0.name}
		for _, oi := range path {
			n = append(n, ops[oi].name)
		}
		return n
	}
	seen := map[string]bool{}
	type node struct{ path []int }
	c09InitialDup = map[string]int{}
	for _, l := range *init0.mk() {
		cnt := map[string]int{}
		for _, s := range l.Signatures {
			cnt[string(refBE(s.Owner))+string(s.Data)]++
		}
		for k, n := range cnt {
			if n > 1 {
				c09InitialDup[k] = n
			}
		}
	}
	// the initial state's invariants are checked by the unit of the first operation 0
	if first == 0 {
		db := init0.mk()
		if v, d := c09Invariants(db); v != "" {
			c.Violation("C09 state invariant: "+v, map[string]any{"history": pathNames(nil), "detail": d})
		}
		c.Count("states", 1)
	}
	frontier := []node{{nil}}
	maxDepth := 0
	for level := 0; level < depth && len(frontier) > 0; level++ {
		var next []node
		for _, nd := range frontier {
			if c.Expired() {
				return
			}
			for oi := range ops {
				if level == 0 && oi != first {
					continue
				}
				c.Next()
				db := build(nd.path)
				v, d, skipped := c09Check(db, ops[oi])
				if skipped {
					continue
				}
				c.Count("transitions", 1)
				c.Count("traces", 1)
				path := append(append([]int{}, nd.path...), oi)
				if v != "" {
					c.Outcome("step-violation")
					c.Violation("C09 "+v, map[string]any{"history": pathNames(path), "detail": d})
					continue // do not explore beyond a violating step
				}
				k := c09Key(db)
				kh := sha256.Sum256([]byte(k))
				if seen[string(kh[:16])] {
					c.Outcome("revisit")
					continue
				}
				seen[string(kh[:16])] = true
				c.Count("states", 1)
				c.Nontrivial([]byte(k))
				if iv, d := c09Invariants(db); iv != "" {
					c.Outcome("state-violation")
					c.Violation("C09 state invariant: "+iv, map[string]any{"history": pathNames(path), "detail": d})
					continue
				}
				// the same history with the read-only operations (encoding, every membership query) called
				// before every step: they leave nothing behind, the database ends up identical
				{
					dbo := init0.mk()
					var pno *hx.Panic
					for _, pi := range path {
						if pno = hx.Try(func() {
							c09Invariants(dbo)
							var mb bytes.Buffer
							dbo.Marshal(&mb)
							c09Apply(dbo, ops[pi])
						}); pno != nil {
							break
						}
					}
					if pno != nil || c09Key(dbo) != k {
						c.Outcome("state-violation")
						c.Violation("C09 the database differs when encoding and membership queries were called between the operations", map[string]any{"history": pathNames(path), "panic": fmt.Sprint(pno)})
						continue
					}
				}
				c.Outcome("state-ok")
				if len(path) > maxDepth {
					maxDepth = len(path)
				}
				if len(seen)%500 == 1 {
					c.Sample(map[string]any{"history": pathNames(path), "lists": c09ViewOf(db).lists})
				}
				next = append(next, node{path})
			}
		}
		frontier = next
	}
	c.Max("max:depth", uint64(maxDepth))
	_ = sort.Strings
}

// c09WeakEq: membership must be decided by equality of the data, not by anything weaker. For every
// weak-equality twin y of a stored value x (same CRC, same fold, same bytes in another order, common
// prefix, ...): every sequence of up to three operations over {Append, Remove} x {x, y} is judged
// step by step like the search does, from the empty database.
func c09WeakEq(c *hx.Ctx, typ, xname string) {
	c09Init()
	var t *c09Type
	for i := range c09Types {
		if c09Types[i].name == typ {
			t = &c09Types[i]
		}
	}
	x := c09Data[xname]
	for _, tw := range weakeq.Twins(x) {
		yname := "another value with " + tw.Name + " as " + xname
		c09Data[yname] = tw.Value
		var ops []c09Op
		for _, d := range []string{xname, yname} {
			ops = append(ops, c09Op{name: fmt.Sprintf("Append(%s,O1,%s)", t.name, d), kind: "append", t: t, own: 0, data: d},
				c09Op{name: fmt.Sprintf("Remove(%s,O1,%s)", t.name, d), kind: "remove", t: t, own: 0, data: d})
		}
		c09InitialDup = map[string]int{}
		var rec func(path []int)
		rec = func(path []int) {
			for oi := range ops {
				c.Next()
				db := signature.NewSignatureDatabase()
				names := []string{"init: empty database"}
				for _, pi := range path {
					c09Apply(db, ops[pi])
					names = append(names, ops[pi].name)
				}
				names = append(names, ops[oi].name)
				v, d, skipped := c09Check(db, ops[oi])
				if skipped {
					continue
				}
				c.Count("transitions", 1)
				if v != "" {
					c.Outcome("step-violation")
					c.Violation("C09 "+v, map[string]any{"history": names, "detail": d})
					continue
				}
				if iv, d := c09Invariants(db); iv != "" {
					c.Outcome("state-violation")
					c.Violation("C09 state invariant: "+iv, map[string]any{"history": names, "detail": d})
					continue
				}
				c.Outcome("state-ok")
				c.Nontrivial([]byte(c09Key(db)))
				if len(path) < 2 {
					rec(append(append([]int{}, path...), oi))
				}
			}
		}
		rec(nil)
	}
}

// c09SharedList: one list (built by list-level AppendBytes) handed to two databases, through
// AppendList twice or through AppendDatabase. Whatever sharing the library implements, after every
// operation on either database BOTH must still be well-formed: queries agree with what each holds, no
// list with two identical entries, size equations, a well-formed encoding that carries its lists. All
// sequences of up to three operations over {Remove, Append} on either database are run.
func c09SharedList(c *hx.Ctx) {
	c09Init()
	c09Data["h3"], c09Data["h4"] = fill(32, 0x33), fill(32, 0x44)
	t := &c09Types[0]
	c09InitialDup = map[string]int{}
	type cfg struct {
		name string
		lst  []string
		via  string
	}
	var cfgs []cfg
	for _, lst := range [][]string{{"O1:h1", "O1:h2", "O1:h3"}, {"O1:h1", "O1:h2"}, {"O1:h1"}} {
		for _, via := range []string{"AppendList", "AppendDatabase"} {
			cfgs = append(cfgs, cfg{fmt.Sprintf("list %v given to databases A and B (B through %s)", lst, via), lst, via})
		}
	}
	type op struct {
		db   int
		kind string
		data string
	}
	var ops []op
	for db := 0; db < 2; db++ {
		for _, d := range []string{"h1", "h2", "h3"} {
			ops = append(ops, op{db, "remove", d})
		}
		for _, d := range []string{"h4", "h1"} {
			ops = append(ops, op{db, "append", d})
		}
	}
	opName := func(o op) string {
		return fmt.Sprintf("%s.%s(SHA256,O1,%s)", []string{"A", "B"}[o.db], map[string]string{"remove": "Remove", "append": "Append"}[o.kind], o.data)
	}
	for _, cf := range cfgs {
		var rec func(path []int)
		rec = func(path []int) {
			for oi := range ops {
				c.Next()
				l, _ := c09BuildList(t, cf.lst)
				dbs := [2]*signature.SignatureDatabase{signature.NewSignatureDatabase(), signature.NewSignatureDatabase()}
				names := []string{"init: " + cf.name}
				var bad string
				var detail map[string]any
				pn := hx.Try(func() {
					dbs[0].AppendList(l)
					if cf.via == "AppendList" {
						dbs[1].AppendList(l)
					} else {
						dbs[1].AppendDatabase(dbs[0])
					}
					for _, pi := range append(append([]int{}, path...), oi) {
						o := ops[pi]
						names = append(names, opName(o))
						if o.kind == "remove" {
							dbs[o.db].Remove(t.g, c09Own[0].g, c09Data[o.data])
						} else {
							dbs[o.db].Append(t.g, c09Own[0].g, c09Data[o.data])
						}
					}
					for i, db := range dbs {
						if v, d := c09Invariants(db); v != "" {
							bad, detail = "database "+[]string{"A", "B"}[i]+": "+v, d
							return
						}
					}
				})
				c.Count("transitions", 1)
				if pn != nil {
					c.Outcome("step-violation")
					c.Violation("C09 operations on databases sharing a list end in "+pn.String(), map[string]any{"history": names})
					continue
				}
				if bad != "" {
					c.Outcome("state-violation")
					c.Violation("C09 state invariant after operations on databases that were given the same list: "+bad, map[string]any{"history": names, "detail": detail})
					continue
				}
				c.Outcome("state-ok")
				c.Nontrivial([]byte(c09Key(dbs[0])), []byte(c09Key(dbs[1])))
				if len(path) < 2 {
					rec(append(append([]int{}, path...), oi))
				}
			}
		}
		rec(nil)
	}
}

// c09SourceReused: a database decoded from a caller's buffer or slice, which the caller then uses for
// something else (writes the next variable into it, resets and refills it, overwrites the slice).
// The database is the caller's from then on: its entries, the membership answers and the effect of the
// next Append / Remove are those of a database decoded from a private copy.
func c09SourceReused(c *hx.Ctx) {
	c09Init()
	c09InitialDup = map[string]int{}
	enc := refesl.Encode([]refesl.List{
		refesl.Mk(refesl.SHA256, 48, refesl.Entry{Owner: ownerA, Data: c09Data["h1"]}, refesl.Entry{Owner: ownerB, Data: c09Data["h2"]}),
		refesl.Mk(refesl.X509, uint32(16+len(c09Data["certA-DER"])), refesl.Entry{Owner: ownerA, Data: c09Data["certA-DER"]})})
	other := refesl.Encode([]refesl.List{
		refesl.Mk(refesl.SHA256, 48, refesl.Entry{Owner: ownerB, Data: fill(32, 0x77)}, refesl.Entry{Owner: ownerA, Data: fill(32, 0x78)}),
		refesl.Mk(refesl.X509, uint32(16+len(c09Data["certB-DER"])), refesl.Entry{Owner: ownerB, Data: c09Data["certB-DER"]})})
	pristine, err := signature.ReadSignatureDatabase(bytes.NewReader(append([]byte{}, enc...)))
	if err != nil {
		c.Note("reference stream does not decode: %v", err)
		return
	}
	wantKey := c09Key(&pristine)
	type src struct {
		name string
		run  func() (*signature.SignatureDatabase, error)
	}
	viaBuf := func(unmarshal bool, reuse func(buf *bytes.Buffer, store []byte)) func() (*signature.SignatureDatabase, error) {
		return func() (*signature.SignatureDatabase, error) {
			store := append(make([]byte, 0, 4*len(enc)), enc...)
			buf := bytes.NewBuffer(store)
			var db signature.SignatureDatabase
			var err error
			if unmarshal {
				err = db.Unmarshal(buf)
			} else {
				db, err = signature.ReadSignatureDatabase(buf)
			}
			reuse(buf, store[:cap(store)])
			return &db, err
		}
	}
	reuses := []struct {
		name string
		f    func(buf *bytes.Buffer, store []byte)
	}{
		{"the next value written into the drained buffer", func(buf *bytes.Buffer, store []byte) { buf.Write(other) }},
		{"the buffer reset and refilled", func(buf *bytes.Buffer, store []byte) { buf.Reset(); buf.Write(other); buf.Write(other) }},
		{"another database marshalled into the buffer", func(buf *bytes.Buffer, store []byte) {
			o, _ := signature.ReadSignatureDatabase(bytes.NewReader(other))
			o.Marshal(buf)
		}},
		{"the underlying array overwritten", func(buf *bytes.Buffer, store []byte) {
			for i := range store {
				store[i] = 0xa5
			}
		}},
	}
	var srcs []src
	for _, r := range reuses {
		srcs = append(srcs, src{"Unmarshal from a *bytes.Buffer, then " + r.name, viaBuf(true, r.f)}, src{"ReadSignatureDatabase from a *bytes.Buffer, then " + r.name, viaBuf(false, r.f)})
	}
	srcs = append(srcs, src{"ReadSignatureDatabase from a bytes.Reader over a slice, then the slice overwritten", func() (*signature.SignatureDatabase, error) {
		store := append([]byte{}, enc...)
		db, err := signature.ReadSignatureDatabase(bytes.NewReader(store))
		for i := range store {
			store[i] = 0xa5
		}
		return &db, err
	}})
	x := &c09Types[1]
	sh := &c09Types[0]
	steps := []c09Op{
		{name: "Remove(SHA256,O1,h1)", kind: "remove", t: sh, own: 0, data: "h1"},
		{name: "Append(SHA256,O1,h1)", kind: "append", t: sh, own: 0, data: "h1"},
		{name: "Append(SHA256,O1,h31)", kind: "append", t: sh, own: 0, data: "h31"},
		{name: "Remove(X509,O1,certA-DER)", kind: "remove", t: x, own: 0, data: "certA-DER"},
		{name: "Append(X509,O2,certB-DER)", kind: "append", t: x, own: 1, data: "certB-DER"},
	}
	for _, sr := range srcs {
		for si := -1; si < len(steps); si++ {
			if !c.Next() {
				continue
			}
			var db *signature.SignatureDatabase
			var err error
			if pn := hx.Try(func() { db, err = sr.run() }); pn != nil || err != nil {
				c.Outcome("violation")
				c.Violation("C09 decoding a well-formed database fails", map[string]any{"source": sr.name, "error": fmt.Sprint(err, pn)})
				continue
			}
			hist := []string{"init: " + sr.name}
			if got := c09Key(db); got != wantKey {
				c.Outcome("state-violation")
				c.Violation("C09 a decoded database changes when the caller goes on using the buffer or slice it was decoded from", map[string]any{"history": hist})
				continue
			}
			if si >= 0 {
				hist = append(hist, steps[si].name)
				if v, d, _ := c09Check(db, steps[si]); v != "" {
					c.Outcome("step-violation")
					c.Violation("C09 "+v, map[string]any{"history": hist, "detail": d})
					continue
				}
			}
			if iv, d := c09Invariants(db); iv != "" {
				c.Outcome("state-violation")
				c.Violation("C09 state invariant: "+iv, map[string]any{"history": hist, "detail": d})
				continue
			}
			c.Outcome("state-ok")
			c.Count("transitions", 1)
			c.Nontrivial([]byte(sr.name), []byte(fmt.Sprint(si)))
		}
	}
}
