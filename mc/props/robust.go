//go:build !verifsched

package props

import (
	"fmt"
	"runtime/metrics"
	"syscall"
	"time"

	"verif/internal/hx"
)

// allocBytes is the cumulative number of bytes allocated by the process.
func allocBytes() uint64 {
	s := []metrics.Sample{{Name: "/gc/heap/allocs:bytes"}}
	metrics.Read(s)
	return s[0].Value.Uint64()
}

// robustRun executes f on one untrusted input and classifies the outcome:
// return (value or error) is the only acceptable class; panic / exit are
// violations; process death and hangs are detected by the parent (E-box);
// allocation beyond 64 MiB + 64*len(input) is a violation.
func robustRun(c *hx.Ctx, prop, entry, class string, input []byte, f func()) {
	if !c.Next() {
		return
	}
	c.Label(entry + " " + class)
	a0 := allocBytes()
	pn := hx.Try(f)
	alloc := allocBytes() - a0
	c.Max("max:alloc_bytes_per_input", alloc)
	if pn != nil {
		kind := "panic"
		if pn.Exit {
			kind = "process exit"
		}
		c.Outcome(kind)
		what := pn.String()
		if pn.Exit {
			what = "process exit at " + pn.Site // the log message carries variable text
		}
		c.Violation(fmt.Sprintf("%s %s: %s", prop, entry, what), map[string]any{"message": fmt.Sprint(pn.Val), "entry": entry, "input_class": class, "input": hx8(input), "stack": pn.Stack})
		return
	}
	limit := uint64(64<<20) + 64*uint64(len(input))
	if alloc > limit {
		c.Outcome("excessive-allocation")
		c.Violation(fmt.Sprintf("%s %s: allocates %d MiB for a %d-byte input", prop, entry, alloc>>20, len(input)),
			map[string]any{"entry": entry, "input_class": class, "input": hx8(input), "allocated": alloc})
		return
	}
	c.Outcome("returned")
	c.Nontrivial([]byte(entry), input)
}

// boundaryValues is the value alphabet for header fields, truncated to the field width.
func boundaryValues(cur uint64, fileLen int, width int) []uint64 {
	l := uint64(fileLen)
	vals := []uint64{0, 1, 7, 8, 9, cur - 1, cur + 1, l - 1, l, l + 1, 2 * l, 0x7fff, 0x8000, 0xffff, 1<<31 - 1, 1 << 31, 1<<32 - 8, 1<<32 - 1}
	mask := uint64(1)<<(8*uint(width)) - 1
	seen := map[uint64]bool{cur & mask: true}
	var out []uint64
	for _, v := range vals {
		v &= mask
		if !seen[v] {
			seen[v] = true
			out = append(out, v)
		}
	}
	return out
}

type fieldRef struct {
	name  string
	off   int
	width int
}

func putField(b []byte, f fieldRef, v uint64) {
	for i := 0; i < f.width; i++ {
		b[f.off+i] = byte(v >> (8 * uint(i)))
	}
}

func getField(b []byte, f fieldRef) uint64 {
	var v uint64
	for i := 0; i < f.width; i++ {
		v |= uint64(b[f.off+i]) << (8 * uint(i))
	}
	return v
}

// shortStrings enumerates all byte strings of length <= 2 and all strings of
// length <= maxLen over the given alphabet.
func shortStrings(alpha []byte, maxLen int, f func(b []byte)) {
	f(nil)
	for a := 0; a < 256; a++ {
		f([]byte{byte(a)})
	}
	for a := 0; a < 256; a++ {
		for b := 0; b < 256; b++ {
			f([]byte{byte(a), byte(b)})
		}
	}
	var rec func(cur []byte)
	rec = func(cur []byte) {
		if len(cur) >= 3 {
			f(append([]byte{}, cur...))
		}
		if len(cur) == maxLen {
			return
		}
		for _, x := range alpha {
			rec(append(cur, x))
		}
	}
	rec(nil)
}

// cpuTime is the CPU time (user + system) this worker process has consumed: unlike wall-clock
// time it does not grow while the process waits for a core.
func cpuTime() time.Duration {
	var ru syscall.Rusage
	if syscall.Getrusage(syscall.RUSAGE_SELF, &ru) != nil {
		return 0
	}
	return time.Duration(ru.Utime.Nano() + ru.Stime.Nano())
}

func cpuOf(f func()) (time.Duration, *hx.Panic) {
	t0 := cpuTime()
	pn := hx.Try(f)
	return cpuTime() - t0, pn
}

// scalingRun decides "time proportional to the input size" for one input family without a
// wall-clock threshold: the same decoder runs on an input of n units and on one of 8n units. Linear
// (or n log n) work costs about 8 times as much; quadratic work 64 times. An alarm needs all of:
// the large input costs more than 2 s of CPU (best of three), and more than 20 times the small one
// (best of three) plus those 2 s. Anything faster than 2 s passes at once, so the unchanged tree
// spends milliseconds here and cannot fail through machine load.
func scalingRun(c *hx.Ctx, prop, entry, class string, n int, mk func(n int) []byte, f func(in []byte)) {
	if !c.Next() {
		return
	}
	c.Label(entry + " scaling " + class)
	small, big := mk(n), mk(8*n)
	tBig, pn := cpuOf(func() { f(big) })
	if pn != nil {
		c.Outcome("panic")
		c.Violation(fmt.Sprintf("%s %s: %s", prop, entry, pn.String()), map[string]any{"entry": entry, "input_class": class, "input_bytes": len(big)})
		return
	}
	c.Tick()
	if tBig < 2*time.Second {
		c.Outcome("scales")
		c.Nontrivial([]byte(entry), []byte(class), []byte("scaling"))
		return
	}
	tSmall := time.Duration(1 << 62)
	for i := 0; i < 3; i++ {
		t, _ := cpuOf(func() { f(small) })
		c.Tick()
		if t < tSmall {
			tSmall = t
		}
	}
	for i := 0; i < 2 && tBig > 20*tSmall+2*time.Second; i++ {
		t, _ := cpuOf(func() { f(big) })
		c.Tick()
		if t < tBig {
			tBig = t
		}
	}
	if tBig > 20*tSmall+2*time.Second {
		c.Outcome("superlinear")
		c.Violation(fmt.Sprintf("%s %s: time is not proportional to the input size (%s)", prop, entry, class),
			map[string]any{"entry": entry, "input_class": class, "small_input_bytes": len(small), "large_input_bytes": len(big), "cpu_small": tSmall.String(), "cpu_large": tBig.String()})
		return
	}
	c.Outcome("scales")
	c.Nontrivial([]byte(entry), []byte(class), []byte("scaling"))
}
