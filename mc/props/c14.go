//go:build !verifsched

package props

import (
	"bytes"
	"encoding/binary"
	"encoding/json"
	"fmt"
	"go/ast"
	"go/parser"
	"go/token"
	"os"
	"path/filepath"
	"sort"
	"strings"
	"testing/fstest"
	"time"

	"github.com/foxboron/go-uefi/efi"
	"github.com/foxboron/go-uefi/efi/attributes"
	"github.com/foxboron/go-uefi/efi/device"
	"github.com/foxboron/go-uefi/efi/efitest"
	efifs "github.com/foxboron/go-uefi/efi/fs"
	"github.com/foxboron/go-uefi/efi/signature"
	"github.com/foxboron/go-uefi/efi/util"
	"github.com/foxboron/go-uefi/efivar"
	"github.com/foxboron/go-uefi/efivarfs"
	"github.com/foxboron/go-uefi/efivarfs/fswrapper"
	"github.com/foxboron/go-uefi/efivarfs/testfs"

	"verif/gen/dpgen"
	"verif/internal/hx"
	"verif/internal/recfs"
	"verif/keys"
	"verif/ref/refauth"
	"verif/ref/refesl"
)

func init() {
	hx.Register(&hx.Prop{
		ID:    "C14",
		Level: "exploration",
		Rule: "per decoder entry point (signature database / list / data, authentication descriptor, WIN_CERTIFICATE and its UEFI_GUID variant, supported-signature list, load option + device path followed by Format() of every node, UTF-16 string decoders, boot order through the store, attribute-prefixed variable files of both APIs, typed accessors on the in-memory store, the store's own descriptor probe, PEM key/certificate readers, GUID text/bytes): " +
			"every truncation point of every seed (repository captures and synthetic values); every length/size/type field x boundary alphabet and all pairs; every device-path (type, sub-type) pair 0..255 x 0..255 with body lengths 0..24; PartitionFormat/SignatureType x all 256 values; all byte strings of length <= 2 and of length <= 5..6 over small alphabets; every single byte x 8 values of the small seeds. " +
			"well-formed PEM files of every other kind (PKCS#8 ECDSA/Ed25519/X25519/ECDH, SEC1, PKCS#1, public key, mislabelled blocks, PEM headers) with their truncations and byte changes. oracle: outcome class 'returned' only; panic, process exit (log shim), worker death, hang and allocation above 64 MiB + 64*len(input) are violations. " +
			"static part: all call sites of log.Fatal*/os.Exit/panic/BytesOrPanic in the library packages (AST scan of the current tree) are listed; a site absent from the committed baseline is reported in the evidence as a new coverage goal (never an alarm by itself). non-trivial = input executed to completion and classified; distinct = distinct (entry point, input)",
		Assumptions: []string{"generous fixed thresholds as in C13", "the static scan is a coverage guide: only dynamically witnessed terminations are violations"},
		Units: func(tier string) []string {
			return []string{"sigdb", "sigparts", "auth2", "wincert", "sigsupport", "loadopt-seeds", "loadopt-nodes#0", "loadopt-nodes#1", "loadopt-nodes#2", "loadopt-nodes#3", "loadopt-strings",
				"utf16", "bootorder", "efivars-files", "accessors", "store-probe", "pem", "guid", "static-sites", "scaling"}
		},
		Run:    c14Run,
		Budget: dur(6*time.Minute, 40*time.Minute),
	})
}

func c14LoadOption(b []byte) {
	var e device.EFILoadOption
	if err := e.Unmarshal(bytes.NewBuffer(append([]byte{}, b...))); err == nil {
		for _, n := range e.FilePath {
			n.Format()
		}
	}
	buf := bytes.NewBuffer(append([]byte{}, b...))
	if lo, err := device.ParseEFILoadOption(buf); err == nil && lo != nil {
		if nodes, err := device.ParseDevicePath(buf); err == nil {
			for _, n := range nodes {
				n.Format()
			}
		}
	}
}

func c14Store(files map[string][]byte) *efivarfs.Efivarfs {
	m := fstest.MapFS{}
	for k, v := range files {
		m[k] = &fstest.MapFile{Data: v}
	}
	return testfs.NewTestFS().With(m).Open()
}

func c14Accessors(content []byte) {
	pathOf := func(v efivar.Efivar) string { return efivarsDir + v.Name + "-" + refFormat(*v.GUID) }
	files := map[string][]byte{}
	for _, v := range []efivar.Efivar{efivar.PK, efivar.KEK, efivar.Db, efivar.Dbx, efivar.SetupMode, efivar.SecureBoot, efivar.BootOrder, efivar.LoaderEntrySelected} {
		files[pathOf(v)] = content
	}
	files[efivarsDir+"Boot0001-"+globalGUIDText] = content
	e := c14Store(files)
	e.GetPK()
	e.GetKEK()
	e.Getdb()
	e.Getdbx()
	e.GetSetupMode()
	e.GetSecureBoot()
	for _, n := range e.GetBootOrder() {
		_ = n
	}
	if lo, err := e.GetBootEntry("Boot0001"); err == nil && lo != nil {
		for _, n := range lo.FilePath {
			n.Format()
		}
	}
	e.GetLoaderEntrySelected()
	// the package-level twins over the same files, and over an empty directory
	mfs := fstest.MapFS{}
	for p, b := range files {
		mfs[p] = &fstest.MapFile{Data: b}
	}
	for _, dir := range []fstest.MapFS{mfs, {}} {
		efifs.SetFS(efitest.FromMapFS(dir))
		efi.GetPK()
		efi.GetKEK()
		efi.Getdb()
		efi.Getdbx()
		efi.GetSetupMode()
		efi.GetSecureBoot()
		efi.GetCurrentlyBootedEntry()
		efi.GetBootOrder()
		if lo, err := efi.GetBootEntry("Boot0001"); err == nil && lo != nil {
			for _, n := range lo.FilePath {
				if n != nil {
					n.Format()
				}
			}
		}
	}
}

func c14Trunc(c *hx.Ctx, entry string, seed []byte, f func(b []byte)) {
	step := 1
	if len(seed) > 600 {
		step = len(seed)/300 + 1
	}
	for n := 0; n < len(seed); n++ {
		if n > 96 && n%step != 0 && n < len(seed)-16 {
			continue
		}
		b := seed[:n]
		robustRun(c, "C14", entry, "truncated input", b, func() { f(b) })
	}
	robustRun(c, "C14", entry, "valid input", seed, func() { f(seed) })
}

func c14Bytes(c *hx.Ctx, entry string, seed []byte, f func(b []byte)) {
	if len(seed) > 400 {
		return
	}
	mut := append([]byte{}, seed...)
	for off := range seed {
		v := seed[off]
		for _, x := range []byte{v ^ 1, v ^ 0x80, 0, 0xff, v - 1, v + 1, 0x7f, 0x10} {
			if x == v {
				continue
			}
			mut[off] = x
			robustRun(c, "C14", entry, "single byte change", mut, func() { f(mut) })
		}
		mut[off] = v
	}
}

func c14Fields(c *hx.Ctx, entry string, seed []byte, fields []fieldRef, f func(b []byte)) {
	for i, fr := range fields {
		for _, v := range boundaryValues(getField(seed, fr), len(seed), fr.width) {
			x := append([]byte{}, seed...)
			putField(x, fr, v)
			robustRun(c, "C14", entry, "field "+fr.name, x, func() { f(x) })
			for j := i + 1; j < len(fields); j++ {
				g := fields[j]
				for _, w := range boundaryValues(getField(seed, g), len(seed), g.width) {
					y := append([]byte{}, x...)
					putField(y, g, w)
					robustRun(c, "C14", entry, "fields "+fr.name+"+"+g.name, y, func() { f(y) })
				}
			}
		}
	}
}

func readFiles(glob string) map[string][]byte {
	out := map[string][]byte{}
	m, _ := filepath.Glob(glob)
	sort.Strings(m)
	for _, f := range m {
		if b, err := os.ReadFile(f); err == nil {
			out[f] = b
		}
	}
	return out
}

func sortedKeys(m map[string][]byte) []string {
	var k []string
	for s := range m {
		k = append(k, s)
	}
	sort.Strings(k)
	return k
}

func c14Run(c *hx.Ctx, tier, unit string) {
	small := []byte{0x00, 0x01, 0x10, 0x1c, 0x30, 0xff}
	switch {
	case unit == "sigdb":
		f := func(b []byte) { signature.ReadSignatureDatabase(bytes.NewReader(b)) }
		seeds := [][]byte{
			refesl.Encode([]refesl.List{refesl.Mk(refesl.SHA256, 48, refesl.Entry{Owner: ownerA, Data: fill(32, 1)})}),
			refesl.Encode([]refesl.List{refesl.Mk(refesl.X509, 21, refesl.Entry{Owner: ownerA, Data: fill(5, 1)}, refesl.Entry{Owner: ownerB, Data: fill(5, 2)}), refesl.Mk(refesl.EXTMGT, 17, refesl.Entry{Owner: ownerA, Data: []byte{1}})}),
		}
		for _, fb := range readFiles("/repo/tests/data/signatures/siglist/*") {
			seeds = append(seeds, fb)
		}
		for _, s := range seeds {
			c14Trunc(c, "ReadSignatureDatabase", s, f)
			c14Fields(c, "ReadSignatureDatabase", s, []fieldRef{{"ListSize", 16, 4}, {"HeaderSize", 20, 4}, {"SignatureSize", 24, 4}}, f)
			c14Bytes(c, "ReadSignatureDatabase", s, f)
		}
		shortStrings(small, 5, func(b []byte) { robustRun(c, "C14", "ReadSignatureDatabase", "short string", b, func() { f(b) }) })
		c.Sample(map[string]any{"entry": "ReadSignatureDatabase", "seeds": len(seeds)})
	case unit == "sigparts":
		for _, size := range []uint32{0, 1, 15, 16, 17, 48, 1 << 31, 1<<32 - 1} {
			for n := 0; n <= 40; n++ {
				b := fill(n, 0x21)
				robustRun(c, "C14", "ReadSignatureData", fmt.Sprintf("size %d", size), b, func() { signature.ReadSignatureData(bytes.NewReader(b), size) })
			}
		}
		shortStrings(small, 5, func(b []byte) {
			robustRun(c, "C14", "ReadSignatureList", "short string", b, func() { signature.ReadSignatureList(bytes.NewReader(b)) })
		})
	case unit == "auth2":
		f := func(b []byte) {
			signature.ReadEFIVariableAuthencation2(bytes.NewReader(b))
			var a signature.EFIVariableAuthentication2
			a.Unmarshal(bytes.NewBuffer(append([]byte{}, b...)))
		}
		seeds := [][]byte{refauth.Auth2{Length: 24 + 5, Revision: 0x0200, Type: 0x0EF1, CertType: guidPKCS7, CertData: fill(5, 3)}.Bytes()}
		for _, fb := range readFiles("/repo/tests/data/signatures/varsign/*.auth") {
			seeds = append(seeds, fb)
		}
		flds := []fieldRef{{"dwLength", 16, 4}, {"wRevision", 20, 2}, {"wCertificateType", 22, 2}}
		for _, s := range seeds {
			c14Trunc(c, "ReadEFIVariableAuthencation2", s, f)
			c14Fields(c, "ReadEFIVariableAuthencation2", s, flds, f)
		}
		c14Bytes(c, "ReadEFIVariableAuthencation2", seeds[0], f)
		// every GUID the specification defines x every CertData length 0..600, exact and cut short
		for _, g := range specGUIDs() {
			for n := 0; n <= 600; n++ {
				in := refauth.Auth2{Length: uint32(24 + n), Revision: 0x0200, Type: 0x0EF1, CertType: g, CertData: fill(n, 3)}.Bytes()
				robustRun(c, "C14", "ReadEFIVariableAuthencation2", "specification GUID x length", in, func() {
					f(in)
					signature.ReadWinCertificateUEFIGUID(bytes.NewReader(in[16:]))
				})
			}
		}
		shortStrings(small, 5, func(b []byte) {
			robustRun(c, "C14", "ReadEFIVariableAuthencation2", "short string", b, func() { f(b) })
		})
		c.Sample(map[string]any{"entry": "ReadEFIVariableAuthencation2", "seeds": len(seeds)})
	case unit == "wincert":
		f := func(b []byte) {
			signature.ReadWinCertificate(bytes.NewReader(b))
			signature.ReadWinCertificateUEFIGUID(bytes.NewReader(b))
		}
		seeds := [][]byte{refauth.WinCert{Length: 8 + 20, Revision: 0x0200, Type: 0x0EF1, Body: fill(20, 9)}.Bytes(), refauth.WinCert{Length: 8, Revision: 0x0200, Type: 2}.Bytes(),
			refauth.WinCert{Length: 8 + 7, Revision: 0x0200, Type: 0x0EF1, Body: fill(7, 9)}.Bytes()}
		flds := []fieldRef{{"dwLength", 0, 4}, {"wRevision", 4, 2}, {"wCertificateType", 6, 2}}
		for _, s := range seeds {
			c14Trunc(c, "ReadWinCertificate(UEFIGUID)", s, f)
			c14Fields(c, "ReadWinCertificate(UEFIGUID)", s, flds, f)
			c14Bytes(c, "ReadWinCertificate(UEFIGUID)", s, f)
		}
		shortStrings(small, 6, func(b []byte) {
			robustRun(c, "C14", "ReadWinCertificate(UEFIGUID)", "short string", b, func() { f(b) })
		})
	case unit == "sigsupport":
		for n := 0; n <= 48; n++ {
			for _, p := range []byte{0x00, 0xff, 0x5a} {
				b := fill(n, p)
				robustRun(c, "C14", "GetSupportedSignatures", "bytes", b, func() { signature.GetSupportedSignatures(bytes.NewReader(b)) })
			}
		}
		for _, fb := range readFiles("/repo/tests/data/signatures/sigsupport/*") {
			c14Trunc(c, "GetSupportedSignatures", fb, func(b []byte) { signature.GetSupportedSignatures(bytes.NewReader(b)) })
		}
	case unit == "loadopt-seeds":
		var seeds [][]byte
		files := readFiles("/repo/tests/data/boot/*")
		for _, k := range sortedKeys(files) {
			if len(files[k]) > 4 {
				seeds = append(seeds, files[k][4:])
			}
		}
		for _, kd := range c18Kinds {
			for _, n := range c18NodeVariants(kd, false)[:1] {
				seeds = append(seeds, dpgen.LoadOption{Attributes: 1, Description: "d", Nodes: []dpgen.Node{n, {Kind: "File", Path: "\\x"}}}.Bytes())
			}
		}
		for _, s := range seeds {
			c14Trunc(c, "EFILoadOption.Unmarshal+Format", s, c14LoadOption)
			c14Bytes(c, "EFILoadOption.Unmarshal+Format", s, c14LoadOption)
		}
		c.Sample(map[string]any{"entry": "EFILoadOption.Unmarshal+Format", "seeds": len(seeds)})
		// hard-drive node: every PartitionFormat / SignatureType value, partition numbers 0 and 1
		for v := 0; v < 256; v++ {
			for _, which := range []int{0, 1} {
				for _, pn := range []uint32{0, 1} {
					n := dpgen.Node{Kind: "HD", PartNum: pn, Start: 1, Size: 2, MBRType: 2, SigType: 2}
					if which == 0 {
						n.MBRType = uint8(v)
					} else {
						n.SigType = uint8(v)
					}
					b := dpgen.LoadOption{Attributes: 1, Description: "d", Nodes: []dpgen.Node{n}}.Bytes()
					robustRun(c, "C14", "EFILoadOption.Unmarshal+Format", "hard-drive node format/signature type", b, func() { c14LoadOption(b) })
				}
			}
		}
	case strings.HasPrefix(unit, "loadopt-nodes#"):
		shard := int(unit[len(unit)-1] - '0')
		hdr := dpgen.LoadOption{Attributes: 1, Description: "d"}.Bytes()
		hdr = hdr[:len(hdr)-4] // without the end node
		for t := 0; t < 256; t++ {
			if t%4 != shard {
				continue
			}
			for st := 0; st < 256; st++ {
				for _, bl := range []int{0, 1, 2, 3, 4, 8, 12, 16, 20, 24} {
					if tier != "thorough" && bl > 4 && bl != 16 && bl != 24 && !(t <= 5 || t == 0x7f) {
						continue
					}
					for _, withEnd := range []bool{true, false} {
						node := append([]byte{byte(t), byte(st), byte(4 + bl), 0}, fill(bl, 0x11)...)
						b := append(append([]byte{}, hdr...), node...)
						if withEnd {
							b = append(b, dpgen.End...)
						}
						robustRun(c, "C14", "EFILoadOption.Unmarshal+Format", "device-path node (type, sub-type) sweep", b, func() { c14LoadOption(b) })
					}
				}
			}
			if c.Expired() {
				return
			}
		}
		// the types whose sub-types the specification lays out (hardware, ACPI, messaging, media, BBS,
		// end): sub-types 0..31, every body length 0..40, bodies a decoder of strings and counted
		// fields may trip over (no NUL, one NUL at the end, NULs in the middle, UTF-16, all ones)
		for _, t := range []int{1, 2, 3, 4, 5, 0x7f} {
			if t%4 != shard {
				continue
			}
			for st := 0; st < 32; st++ {
				for bl := 0; bl <= 40; bl++ {
					for pi, pat := range c14BodyPatterns(bl) {
						for _, withEnd := range []bool{true, false} {
							if !withEnd && pi > 1 {
								continue
							}
							node := append([]byte{byte(t), byte(st), byte(4 + bl), 0}, pat...)
							b := append(append([]byte{}, hdr...), node...)
							if withEnd {
								b = append(b, dpgen.End...)
							}
							robustRun(c, "C14", "EFILoadOption.Unmarshal+Format", "device-path node body sweep", b, func() { c14LoadOption(b) })
						}
					}
				}
			}
		}
	case unit == "loadopt-strings":
		shortStrings([]byte{0x00, 0x01, 0x04, 0x7f, 0xff, 0x41}, 6, func(b []byte) {
			robustRun(c, "C14", "EFILoadOption.Unmarshal+Format", "short string", b, func() { c14LoadOption(b) })
			robustRun(c, "C14", "ParseDevicePath", "short string", b, func() {
				if nodes, err := device.ParseDevicePath(bytes.NewReader(b)); err == nil {
					for _, n := range nodes {
						n.Format()
					}
				}
			})
		})
	case unit == "utf16":
		shortStrings([]byte{0x00, 0x41, 0xd8, 0xdc, 0xff, 0xfe}, 6, func(b []byte) {
			robustRun(c, "C14", "ParseUtf16Var", "short string", b, func() { util.ParseUtf16Var(bytes.NewBuffer(append([]byte{}, b...))) })
			robustRun(c, "C14", "Efistring.Unmarshal", "short string", b, func() {
				var s efivar.Efistring
				s.Unmarshal(bytes.NewBuffer(append([]byte{}, b...)))
			})
			robustRun(c, "C14", "ReadNullString", "short string", b, func() { util.ReadNullString(bytes.NewReader(b)) })
		})
	case unit == "bootorder":
		shortStrings([]byte{0x00, 0x01, 0x1a, 0xff}, 7, func(b []byte) {
			content := append([]byte{7, 0, 0, 0}, b...)
			robustRun(c, "C14", "GetBootOrder", "short string", b, func() {
				c14Store(map[string][]byte{efivarsDir + "BootOrder-" + globalGUIDText: content}).GetBootOrder()
			})
		})
	case unit == "efivars-files":
		for n := 0; n <= 8; n++ {
			for _, p := range []byte{0x00, 0x07, 0xff} {
				b := fill(n, p)
				robustRun(c, "C14", "ParseEfivars (both APIs)", "file size 0..8", b, func() {
					attributes.ParseEfivars(bytes.NewReader(b), len(b))
					(&fswrapper.FSWrapper{}).ParseEfivars(bytes.NewReader(b), len(b))
				})
				robustRun(c, "C14", "ReadEfivarsFile (both APIs)", "file size 0..8", b, func() {
					rec := recfs.New()
					fh, _ := rec.Inner.Create("/v")
					fh.Write(b)
					fh.Close()
					efifs.SetFS(rec)
					attributes.ReadEfivarsFile("/v")
					attributes.ReadEfivarsFile("/absent")
					fw := fswrapper.NewMemoryWrapper()
					fw.SetFS(rec)
					fw.ReadEfivarsFile("/v")
					fw.ReadFile("/v")
				})
			}
		}
	case unit == "accessors":
		shortStrings([]byte{0x00, 0x07, 0x27, 0xff, 0x10}, 6, func(b []byte) {
			robustRun(c, "C14", "typed accessors on the in-memory store", "short string", b, func() { c14Accessors(b) })
		})
		// attribute prefix + truncated / mutated real values
		seeds := [][]byte{}
		for _, fb := range readFiles("/repo/tests/data/signatures/siglist/*") {
			seeds = append(seeds, fb)
		}
		files := readFiles("/repo/tests/data/boot/*")
		for i, k := range sortedKeys(files) {
			if i < 3 && len(files[k]) > 4 {
				seeds = append(seeds, files[k][4:])
			}
		}
		for _, s := range seeds {
			c14Trunc(c, "typed accessors on the in-memory store", s, func(b []byte) { c14Accessors(append([]byte{0x27, 0, 0, 0}, b...)) })
		}
	case unit == "store-probe":
		// the store probes every PK/KEK/db/dbx value for a descriptor before writing it
		probe := func(b []byte) {
			t := testfs.NewTestFS()
			e := t.Open()
			e.WriteVar(efivar.Db, rawval(b))
			e.WriteVar(efivar.PK, rawval(b))
		}
		shortStrings(small, 5, func(b []byte) {
			robustRun(c, "C14", "TestFS.WriteVar descriptor probe", "short string", b, func() { probe(b) })
		})
		a := refauth.Auth2{Length: 24 + 5, Revision: 0x0200, Type: 0x0EF1, CertType: guidPKCS7, CertData: fill(5, 3)}.Bytes()
		c14Trunc(c, "TestFS.WriteVar descriptor probe", a, probe)
		c14Fields(c, "TestFS.WriteVar descriptor probe", a, []fieldRef{{"dwLength", 16, 4}, {"wRevision", 20, 2}, {"wCertificateType", 22, 2}}, probe)
	case unit == "scaling":
		// time proportional to the input size: each decoder on n and on 8n units of its input
		e := func(i int) refesl.Entry {
			d := fill(32, byte(i))
			d[0], d[1], d[2] = byte(i), byte(i>>8), byte(i>>16)
			return refesl.Entry{Owner: ownerA, Data: d}
		}
		dbf := func(in []byte) {
			signature.ReadSignatureDatabase(bytes.NewReader(in))
			var d signature.SignatureDatabase
			if d.Unmarshal(bytes.NewBuffer(append([]byte{}, in...))) == nil {
				d.Bytes()
			}
		}
		scalingRun(c, "C14", "ReadSignatureDatabase", "one SHA-256 list with n distinct entries", 8192, func(n int) []byte {
			es := make([]refesl.Entry, n)
			for i := range es {
				es[i] = e(i)
			}
			return refesl.Encode([]refesl.List{refesl.Mk(refesl.SHA256, 48, es...)})
		}, dbf)
		scalingRun(c, "C14", "ReadSignatureDatabase", "one SHA-256 list with the same entry n times", 8192, func(n int) []byte {
			es := make([]refesl.Entry, n)
			for i := range es {
				es[i] = e(7)
			}
			return refesl.Encode([]refesl.List{refesl.Mk(refesl.SHA256, 48, es...)})
		}, dbf)
		scalingRun(c, "C14", "ReadSignatureDatabase", "n lists with one entry each", 4096, func(n int) []byte {
			ls := make([]refesl.List, n)
			for i := range ls {
				ls[i] = refesl.Mk(refesl.SHA256, 48, e(i))
			}
			return refesl.Encode(ls)
		}, dbf)
		scalingRun(c, "C14", "ReadSignatureDatabase", "n identical lists", 4096, func(n int) []byte {
			ls := make([]refesl.List, n)
			for i := range ls {
				ls[i] = refesl.Mk(refesl.SHA256, 48, e(1), e(2))
			}
			return refesl.Encode(ls)
		}, dbf)
		scalingRun(c, "C14", "EFILoadOption.Unmarshal + Format", "device path with n PCI nodes", 4096, func(n int) []byte {
			nodes := make([]dpgen.Node, n)
			for i := range nodes {
				nodes[i] = dpgen.Node{Kind: "PCI", Function: uint8(i), Device: uint8(i >> 8)}
			}
			return dpgen.LoadOption{Attributes: 1, Description: "d", Nodes: nodes}.Bytes()
		}, func(in []byte) {
			var o device.EFILoadOption
			if o.Unmarshal(bytes.NewBuffer(append([]byte{}, in...))) == nil {
				for _, nd := range o.FilePath {
					if nd != nil {
						nd.Format()
					}
				}
			}
		})
		scalingRun(c, "C14", "EFILoadOption.Unmarshal + Format", "device path of n end-of-instance nodes (7f 01 04 00)", 300000, func(n int) []byte {
			b := dpgen.LoadOption{Attributes: 1, Description: "d"}.Bytes()
			b = b[:len(b)-4]
			b = append(b, bytes.Repeat([]byte{0x7f, 0x01, 4, 0}, n)...)
			return append(b, 0x7f, 0xff, 4, 0)
		}, func(in []byte) {
			var o device.EFILoadOption
			o.Unmarshal(bytes.NewBuffer(append([]byte{}, in...)))
			device.ParseDevicePath(bytes.NewReader(in[10:]))
		})
		scalingRun(c, "C14", "ParseUtf16Var / Efistring", "string of n characters", 1<<16, func(n int) []byte {
			b := make([]byte, 0, 2*n+2)
			for i := 0; i < n; i++ {
				b = append(b, byte('a'+i%26), byte(i%3))
			}
			return append(b, 0, 0)
		}, func(in []byte) {
			util.ParseUtf16Var(bytes.NewBuffer(append([]byte{}, in...)))
			var s efivar.Efistring
			s.Unmarshal(bytes.NewBuffer(append([]byte{}, in...)))
		})
		scalingRun(c, "C14", "ReadKey/ReadCert", "PEM file with n blocks of text before the key", 2048, func(n int) []byte {
			return append(bytes.Repeat([]byte("-----BEGIN NOTHING-----\nAAAA\n-----END NOTHING-----\ncomment line\n"), n), keys.PEM(1)...)
		}, func(in []byte) {
			util.ReadKey(in)
			util.ReadCert(in)
		})
	case unit == "pem":
		f := func(b []byte) {
			util.ReadKey(b)
			util.ReadCert(b)
		}
		seeds := [][]byte{keys.PEM(1), keys.CertPEM(keys.C(1))}
		// well-formed PEM files of every other kind a key directory holds: the decoders must
		// answer each with a value or an error
		for _, o := range c14OtherPEMs() {
			o := o
			robustRun(c, "C14", "ReadKey/ReadCert", "well-formed PEM of another kind ("+o.name+")", o.pem, func() { f(o.pem) })
			seeds = append(seeds, o.pem)
		}
		for _, s := range seeds {
			step := len(s)/200 + 1
			for n := 0; n <= len(s); n += step {
				b := s[:n]
				robustRun(c, "C14", "ReadKey/ReadCert", "truncated PEM", b, func() { f(b) })
			}
			mut := append([]byte{}, s...)
			for off := 0; off < len(s); off += step {
				v := s[off]
				for _, x := range []byte{v ^ 1, '-', '\n', 0, 'A', '='} {
					mut[off] = x
					robustRun(c, "C14", "ReadKey/ReadCert", "single byte change", mut, func() { f(mut) })
				}
				mut[off] = v
			}
		}
		shortStrings([]byte{'-', 'B', '\n', 0, 'A', '='}, 6, func(b []byte) { robustRun(c, "C14", "ReadKey/ReadCert", "short string", b, func() { f(b) }) })
	case unit == "guid":
		for n := 0; n <= 40; n++ {
			for _, p := range []string{"0", "f", "-", "g", "Z", "8be4df61-93ca-11d2-aa0d-00e098032b8c"} {
				s := strings.Repeat(p, n)
				if len(s) > 80 {
					s = s[:80]
				}
				robustRun(c, "C14", "StringToGUID", "text", []byte(s), func() {
					if g := util.StringToGUID(s); g != nil {
						g.Format()
					}
				})
			}
			b := fill(n, 0x3c)
			robustRun(c, "C14", "BytesToGUID", "bytes", b, func() {
				if g := util.BytesToGUID(b); g != nil {
					g.Format()
					g.Bytes()
				}
			})
		}
		shortStrings([]byte{'0', 'a', 'F', '-', 'x', 0}, 6, func(b []byte) {
			robustRun(c, "C14", "StringToGUID", "short string", b, func() { util.StringToGUID(string(b)) })
		})
	case unit == "static-sites":
		c14Static(c)
	}
	_ = binary.LittleEndian
}

// c14Static lists every termination call site of the library packages in the
// current tree and compares the list with the committed baseline.
func c14Static(c *hx.Ctx) {
	type site struct {
		File string `json:"file"`
		Func string `json:"func"`
		Call string `json:"call"`
	}
	var sites []site
	filepath.Walk("/repo", func(p string, info os.FileInfo, err error) error {
		if err != nil {
			return nil
		}
		rel, _ := filepath.Rel("/repo", p)
		if info.IsDir() {
			if rel == "cmd" || rel == "tests" || rel == "asntest" || info.Name() == ".git" || info.Name() == "testdata" {
				return filepath.SkipDir
			}
			return nil
		}
		if !strings.HasSuffix(p, ".go") || strings.HasSuffix(p, "_test.go") {
			return nil
		}
		fset := token.NewFileSet()
		f, err := parser.ParseFile(fset, p, nil, 0)
		if err != nil {
			return nil
		}
		for _, d := range f.Decls {
			fd, ok := d.(*ast.FuncDecl)
			if !ok || fd.Body == nil {
				continue
			}
			ast.Inspect(fd.Body, func(n ast.Node) bool {
				ce, ok := n.(*ast.CallExpr)
				if !ok {
					return true
				}
				name := ""
				switch fn := ce.Fun.(type) {
				case *ast.SelectorExpr:
					if x, ok := fn.X.(*ast.Ident); ok {
						name = x.Name + "." + fn.Sel.Name
					} else {
						name = "." + fn.Sel.Name
					}
				case *ast.Ident:
					name = fn.Name
				}
				if strings.HasPrefix(name, "log.Fatal") || strings.HasPrefix(name, "log.Panic") || name == "os.Exit" || name == "panic" || strings.HasSuffix(name, ".BytesOrPanic") {
					sites = append(sites, site{rel, fd.Name.Name, name})
				}
				return true
			})
		}
		return nil
	})
	sort.Slice(sites, func(i, j int) bool {
		if sites[i].File != sites[j].File {
			return sites[i].File < sites[j].File
		}
		return sites[i].Func+sites[i].Call < sites[j].Func+sites[j].Call
	})
	var base []site
	if b, err := os.ReadFile(filepath.Join(hx.VerifDir, "termination_sites.json")); err == nil {
		json.Unmarshal(b, &base)
	}
	count := func(l []site) map[site]int {
		m := map[site]int{}
		for _, s := range l {
			m[s]++
		}
		return m
	}
	bc, sc := count(base), count(sites)
	for _, s := range sites {
		if c.Next() {
			c.Outcome("termination-site-listed")
			c.Nontrivial([]byte(s.File), []byte(s.Func), []byte(s.Call))
		}
	}
	var fresh []string
	for s, n := range sc {
		if n > bc[s] {
			fresh = append(fresh, fmt.Sprintf("%s %s() %s", s.File, s.Func, s.Call))
		}
	}
	sort.Strings(fresh)
	c.Count("termination_sites", uint64(len(sites)))
	c.Count("termination_sites_not_in_baseline", uint64(len(fresh)))
	for _, f := range fresh {
		c.Note("termination call site not in the committed baseline (coverage goal, not an alarm): %s", f)
	}
	c.Sample(map[string]any{"termination_sites": sites})
}

// c14BodyPatterns: node bodies of n bytes.
func c14BodyPatterns(n int) [][]byte {
	mk := func(f func(i int) byte) []byte {
		b := make([]byte, n)
		for i := range b {
			b[i] = f(i)
		}
		return b
	}
	return [][]byte{
		mk(func(i int) byte { return 0x00 }),
		mk(func(i int) byte { return 0xff }),
		mk(func(i int) byte { return 'A' }), // text without any NUL
		mk(func(i int) byte { // text, one NUL as the last byte
			if i == n-1 {
				return 0
			}
			return 'A'
		}),
		mk(func(i int) byte { // text, NUL in the middle and at the end
			if i == n-1 || i == n/2 {
				return 0
			}
			return 'B'
		}),
		mk(func(i int) byte { // 12 bytes of fields, then text with a single terminator
			if i == n-1 || i < 12 && i%4 != 0 {
				return 0
			}
			return 'C'
		}),
		mk(func(i int) byte { // UTF-16LE text, terminated
			if i%2 == 1 || i >= n-2 {
				return 0
			}
			return 'D'
		}),
		mk(func(i int) byte { return byte(i + 1) }),
	}
}
