//go:build !verifsched

package props

import (
	"bytes"
	"crypto"
	"crypto/rand"
	"crypto/rsa"
	"crypto/sha256"
	"crypto/x509"
	"crypto/x509/pkix"
	"fmt"
	"math/big"
	"os"
	"sort"

	"github.com/foxboron/go-uefi/authenticode"
	"github.com/foxboron/go-uefi/pkcs7"

	"verif/internal/ossl"
	"verif/keys"
	"verif/ref/der"
	"verif/ref/refp7"
	"verif/weakeq"
)

// p7Seed is one valid SignedData with the certificates to verify it against.
type p7Seed struct {
	Name     string
	Blob     []byte
	Signer   *x509.Certificate // certificate of the key that signed
	Key      *rsa.PrivateKey   // nil for third-party fixtures
	Wrong    *x509.Certificate // other key, other name
	SameName *x509.Certificate // same issuer+serial as Signer, other key
	Detached []byte            // content if detached and known
	HasAttrs bool
	Img      []byte // for Authenticode seeds: the hashed image stream
	Producer string
}

// samePlate builds a certificate with the issuer bytes and serial of c but K2's key.
func samePlate(c *x509.Certificate) *x509.Certificate { return samePlateK(c, 2) }

// samePlatesOtherSizes: two certificates with c's issuer and serial under keys whose modulus differs from
// c's own key (a larger one where there is one, and the 2047-bit key or, for that signer, the 3072-bit one).
func samePlatesOtherSizes(c *x509.Certificate) [2]*x509.Certificate {
	own, _ := c.PublicKey.(*rsa.PublicKey)
	var picked []int
	for _, k := range []int{4, 6, 3, 2} {
		if own != nil && keys.K(k).PublicKey.N.Cmp(own.N) == 0 {
			continue
		}
		if own != nil && keys.K(k).PublicKey.N.BitLen() == own.N.BitLen() {
			continue
		}
		picked = append(picked, k)
		if len(picked) == 2 {
			break
		}
	}
	return [2]*x509.Certificate{samePlateK(c, picked[0]), samePlateK(c, picked[1])}
}

// samePlateK: the same with key k (4 = a LARGER modulus than the usual signer's, 6 = 2047 bits,
// 7 = public exponent 3).
func samePlateK(c *x509.Certificate, k int) *x509.Certificate {
	tmpl := &x509.Certificate{SerialNumber: c.SerialNumber, RawSubject: c.RawIssuer, NotBefore: keys.NotBefore, NotAfter: keys.NotAfter,
		SignatureAlgorithm: x509.SHA256WithRSA, KeyUsage: x509.KeyUsageDigitalSignature, BasicConstraintsValid: true}
	d, err := x509.CreateCertificate(rand.Reader, tmpl, tmpl, &keys.K(k).PublicKey, keys.K(k))
	if err != nil {
		panic(err)
	}
	out, err := x509.ParseCertificate(d)
	if err != nil {
		panic(err)
	}
	if !bytes.Equal(out.RawIssuer, c.RawIssuer) || out.SerialNumber.Cmp(c.SerialNumber) != 0 {
		panic("samePlate: issuer/serial not reproduced")
	}
	return out
}

// trickyContents are contents that themselves look like what the surrounding code handles: text
// carrying a PEM block, a DER SignedData blob, an S/MIME header, DER lengths. "All contents"
// includes them, attached and detached.
func trickyContents() []namedBytes {
	inner, _ := pkcs7.SignPKCS7(keys.K(2), keys.C(2), pkcs7.OIDData, []byte("inner"))
	return []namedBytes{
		{"text ending in a PEM block", append([]byte("A note.\nThe key follows.\n"), keys.CertPEM(keys.C(2))...)},
		{"a PEM block first, then text", append(append([]byte{}, keys.CertPEM(keys.C(2))...), []byte("trailing text\n")...)},
		{"a DER SignedData blob", inner},
		{"S/MIME header text", []byte("MIME-Version: 1.0\r\nContent-Type: multipart/signed; protocol=\"application/x-pkcs7-signature\"; boundary=\"----B\"\r\n\r\n------B\r\nbody\r\n")},
		{"bytes that look like DER lengths", []byte{0x30, 0x82, 0xff, 0xff, 0x04, 0x84, 0x7f, 0xff, 0xff, 0xff, 0xa0, 0x80, 0x00, 0x00}},
	}
}

// signingTimeIsDER: DER constrains the value form of a signing time: UTCTime "YYMMDDHHMMSSZ" (or
// GeneralizedTime "YYYYMMDDHHMMSSZ"): seconds present, no fraction, no offset but Z.
func signingTimeIsDER(g *refp7.Signer) (bool, string) {
	for _, a := range g.Attrs {
		if !bytes.Equal(a.OID, refp7.OIDSigningTime) {
			continue
		}
		for _, v := range a.Values {
			ok := (v.Tag == 0x17 && len(v.Val) == 13 || v.Tag == 0x18 && len(v.Val) == 15) && v.Val[len(v.Val)-1] == 'Z'
			for _, ch := range v.Val[:max(len(v.Val)-1, 0)] {
				if ch < '0' || ch > '9' {
					ok = false
				}
			}
			if !ok {
				return false, string(v.Val)
			}
		}
	}
	return true, ""
}

type namedBytes struct {
	name string
	b    []byte
}

func p7LibSeeds() []p7Seed {
	var seeds []p7Seed
	content := []byte("detached content signed by the library")
	for _, kn := range []int{1, 4, 7} {
		b, err := pkcs7.SignPKCS7(keys.K(kn), keys.C(kn), pkcs7.OIDData, content)
		if err != nil {
			panic(err)
		}
		seeds = append(seeds, p7Seed{Name: fmt.Sprintf("lib-detached-data-k%d", kn), Blob: b, Signer: keys.C(kn), Key: keys.K(kn), Wrong: keys.C(2), SameName: samePlate(keys.C(kn)),
			Detached: content, HasAttrs: true, Producer: "library"})
	}
	if b, err := pkcs7.SignPKCS7(keys.K(1), keys.Leaf(1), pkcs7.OIDData, content); err == nil {
		seeds = append(seeds, p7Seed{Name: "lib-detached-data-leaf-k1", Blob: b, Signer: keys.Leaf(1), Key: keys.K(1), Wrong: keys.C(2), SameName: samePlate(keys.Leaf(1)),
			Detached: content, HasAttrs: true, Producer: "library"})
	}
	// a certificate whose serial number has its top bit set (DER: leading 00 octet), attached content
	hb := keys.Cert(pkix.Name{CommonName: "verif high-bit serial", Organization: []string{"verif"}}, new(big.Int).SetBytes([]byte{0xf1, 0xe2, 0xd3, 0xc4, 0xb5, 0xa6, 0x97, 0x88}), &keys.K(1).PublicKey, keys.K(1))
	if b, err := pkcs7.SignPKCS7(keys.K(1), hb, pkcs7.OIDData, content); err == nil {
		seeds = append(seeds, p7Seed{Name: "lib-detached-data-highbit-serial-k1", Blob: b, Signer: hb, Key: keys.K(1), Wrong: keys.C(2), SameName: samePlate(hb),
			Detached: content, HasAttrs: true, Producer: "library"})
	}
	img := []byte("pretend image stream hashed by authenticode")
	b, err := authenticode.SignAuthenticode(keys.K(1), keys.C(1), bytes.NewReader(img), crypto.SHA256)
	if err != nil {
		panic(err)
	}
	seeds = append(seeds, p7Seed{Name: "lib-authenticode-k1", Blob: b, Signer: keys.C(1), Key: keys.K(1), Wrong: keys.C(2), SameName: samePlate(keys.C(1)), HasAttrs: true, Img: img, Producer: "library"})
	return seeds
}

func p7OpenSSLSeeds(full bool) ([]p7Seed, error) {
	if !ossl.Available() {
		return nil, fmt.Errorf("openssl not installed")
	}
	s, err := ossl.New()
	if err != nil {
		return nil, err
	}
	defer s.Close()
	var seeds []p7Seed
	content := []byte("content signed by openssl\n")
	type cfg struct {
		name, tool string
		extra      []string
		detached   bool
	}
	cfgs := []cfg{
		{"openssl-smime-detached", "smime", nil, true},
		{"openssl-smime-nodetach", "smime", []string{"-nodetach"}, false},
		{"openssl-cms-detached-nosmimecap", "cms", []string{"-nosmimecap"}, true},
	}
	if full {
		cfgs = append(cfgs, cfg{"openssl-cms-nodetach", "cms", []string{"-nodetach"}, false})
	}
	for _, c := range cfgs {
		b, err := s.Sign(c.tool, keys.K(1), keys.C(1), content, c.extra...)
		if err != nil {
			return nil, err
		}
		sd := p7Seed{Name: c.name, Blob: b, Signer: keys.C(1), Key: keys.K(1), Wrong: keys.C(2), SameName: samePlate(keys.C(1)), HasAttrs: true, Producer: "openssl " + c.tool}
		if c.detached {
			sd.Detached = content
		}
		seeds = append(seeds, sd)
	}
	return seeds, nil
}

// p7FixtureSeeds loads the third-party artefacts shipped with the repository.
func p7FixtureSeeds() []p7Seed {
	var seeds []p7Seed
	for _, f := range []struct{ path, prod string }{
		{"/repo/authenticode/testdata/test.authenticode.signed", "sbsign"},
		{"/repo/authenticode/testdata/test.pecoff.pk7", "sbsign"},
		{"/repo/pkcs7/testdata/test.signed", "sbvarsign"},
	} {
		b, err := os.ReadFile(f.path)
		if err != nil {
			continue
		}
		sd, err := refp7.Parse(b)
		if err != nil || len(sd.Signers) == 0 {
			continue
		}
		var signer *x509.Certificate
		for _, cr := range sd.Certs {
			c, err := x509.ParseCertificate(cr)
			if err == nil && sd.Signers[0].Names(c) {
				signer = c
			}
		}
		if signer == nil {
			continue
		}
		seeds = append(seeds, p7Seed{Name: "fixture-" + f.path[len("/repo/"):], Blob: b, Signer: signer, Wrong: keys.C(2), SameName: samePlate(signer),
			HasAttrs: sd.Signers[0].AttrsNode != nil, Producer: f.prod})
	}
	return seeds
}

// ---- structural edit catalogue ----

type p7Edit struct {
	Name string
	Blob []byte
	// RobustOnly: a BER form that a tolerant decoder may legitimately read as the valid original;
	// used for termination/robustness (C13) only, never judged for acceptance.
	RobustOnly bool
}

// signAttrs signs the DER SET encoding of an attribute node with k.
func signAttrs(k *rsa.PrivateKey, attrs *der.Node) []byte {
	b := append([]byte{}, attrs.Bytes()...)
	b[0] = 0x31
	h := sha256.Sum256(b)
	sig, err := rsa.SignPKCS1v15(nil, k, crypto.SHA256, h[:])
	if err != nil {
		panic(err)
	}
	return sig
}

// locate returns handles into a cloned tree of the blob.
type p7Tree struct {
	root    *der.Node
	sd      *der.Node
	ci      *der.Node // encapContentInfo
	certs   *der.Node
	signers *der.Node
	si      *der.Node // first SignerInfo
	attrs   *der.Node
	sigIdx  int // index of encryptedDigest in si.Children
}

func p7Open(blob []byte) (*p7Tree, error) {
	r0, err := der.Parse(blob)
	if err != nil {
		return nil, err
	}
	root := r0.Clone()
	t := &p7Tree{root: root, sd: root}
	if len(root.Children) > 0 && root.Children[0].Tag == 0x06 {
		if len(root.Children) < 2 || len(root.Children[1].Children) < 1 {
			return nil, fmt.Errorf("contentinfo")
		}
		t.sd = root.Children[1].Children[0]
	}
	c := t.sd.Children
	if len(c) < 4 {
		return nil, fmt.Errorf("signeddata")
	}
	t.ci = c[2]
	i := 3
	if c[i].Tag == 0xa0 {
		t.certs = c[i]
		i++
	}
	if i < len(c) && c[i].Tag == 0xa1 {
		i++
	}
	if i >= len(c) {
		return nil, fmt.Errorf("no signerinfos")
	}
	t.signers = c[i]
	if len(t.signers.Children) == 0 {
		return nil, fmt.Errorf("no signer")
	}
	t.si = t.signers.Children[0]
	for j, ch := range t.si.Children {
		if ch.Tag == 0xa0 {
			t.attrs = ch
		}
		if ch.Tag == 0x04 {
			t.sigIdx = j
		}
	}
	return t, nil
}

// p7Edits derives the structural edit catalogue from a seed.
func p7Edits(s p7Seed) []p7Edit {
	var out []p7Edit
	add := func(name string, f func(t *p7Tree) bool) {
		t, err := p7Open(s.Blob)
		if err != nil {
			return
		}
		if f(t) {
			out = append(out, p7Edit{Name: name, Blob: t.root.Encode()})
		}
	}
	t0, err := p7Open(s.Blob)
	if err != nil {
		return nil
	}
	// identity re-encoding must reproduce the blob (the seeds are DER)
	if !bytes.Equal(t0.root.Encode(), s.Blob) {
		out = append(out, p7Edit{Name: "reencoded (seed was not minimal DER)", Blob: t0.root.Encode()})
	}
	nattr := 0
	if t0.attrs != nil {
		nattr = len(t0.attrs.Children)
	}
	c2 := keys.C(2)
	c2issuer, _ := der.Parse(c2.RawIssuer)
	for i := 0; i < nattr; i++ {
		for j := i + 1; j < nattr; j++ {
			i, j := i, j
			add(fmt.Sprintf("swap signed attributes"), func(t *p7Tree) bool {
				t.attrs.Children[i], t.attrs.Children[j] = t.attrs.Children[j], t.attrs.Children[i]
				return true
			})
		}
		i := i
		add("remove a signed attribute", func(t *p7Tree) bool {
			t.attrs.Children = append(t.attrs.Children[:i:i], t.attrs.Children[i+1:]...)
			return true
		})
		add("duplicate a signed attribute", func(t *p7Tree) bool {
			t.attrs.Children = append(t.attrs.Children, t.attrs.Children[i].Clone())
			return true
		})
		add("duplicate a signed attribute with another value in front", func(t *p7Tree) bool {
			d := t.attrs.Children[i].Clone()
			if len(d.Children) == 2 && len(d.Children[1].Children) == 1 && !d.Children[1].Children[0].Constructed() && len(d.Children[1].Children[0].Val) > 0 {
				d.Children[1].Children[0].Val[len(d.Children[1].Children[0].Val)-1] ^= 0x55
			}
			t.attrs.Children = append([]*der.Node{d}, t.attrs.Children...)
			return true
		})
	}
	add("add an unknown signed attribute", func(t *p7Tree) bool {
		if t.attrs == nil {
			return false
		}
		t.attrs.Children = append(t.attrs.Children, der.Cons(0x30, der.Prim(0x06, der.OID(1, 2, 3, 4)), der.Cons(0x31, der.Prim(0x04, []byte{1, 2, 3}))))
		return true
	})
	add("drop the signed attributes", func(t *p7Tree) bool {
		if t.attrs == nil {
			return false
		}
		var ch []*der.Node
		for _, c := range t.si.Children {
			if c != t.attrs {
				ch = append(ch, c)
			}
		}
		t.si.Children = ch
		return true
	})
	add("empty signed attributes", func(t *p7Tree) bool {
		if t.attrs == nil {
			return false
		}
		t.attrs.Children = nil
		return true
	})
	// content
	if len(t0.ci.Children) == 2 {
		add("replace encapsulated content (same length)", func(t *p7Tree) bool {
			inner := t.ci.Children[1].Children[0]
			flipLeaf(inner)
			return true
		})
		add("replace encapsulated content (other length)", func(t *p7Tree) bool {
			inner := t.ci.Children[1].Children[0]
			if inner.Constructed() {
				inner.Children = append(inner.Children, der.Prim(0x04, []byte("extra")))
			} else {
				inner.Val = append(inner.Val, []byte("extra")...)
			}
			return true
		})
		add("remove encapsulated content (make detached)", func(t *p7Tree) bool {
			t.ci.Children = t.ci.Children[:1]
			return true
		})
	} else {
		add("encapsulate other content into a detached signature", func(t *p7Tree) bool {
			t.ci.Children = append(t.ci.Children, der.Cons(0xa0, der.Prim(0x04, []byte("content that was never signed"))))
			return true
		})
	}
	add("replace inner content-type OID", func(t *p7Tree) bool {
		t.ci.Children[0].Val = der.OID(1, 2, 840, 113549, 1, 7, 5)
		return true
	})
	add("replace outer content-type OID", func(t *p7Tree) bool {
		if t.root == t.sd {
			return false
		}
		t.root.Children[0].Val = refp7.OIDData
		return true
	})
	add("strip outer ContentInfo", func(t *p7Tree) bool {
		if t.root == t.sd {
			return false
		}
		t.root = t.sd
		return true
	})
	for _, which := range []struct {
		name string
		oid  []byte
	}{{"contentType", refp7.OIDContentType}, {"messageDigest", refp7.OIDMessageDigest}, {"signingTime", refp7.OIDSigningTime}} {
		which := which
		add("replace the value of the "+which.name+" attribute", func(t *p7Tree) bool {
			if t.attrs == nil {
				return false
			}
			for _, a := range t.attrs.Children {
				if len(a.Children) == 2 && bytes.Equal(a.Children[0].Val, which.oid) && len(a.Children[1].Children) == 1 {
					v := a.Children[1].Children[0]
					if len(v.Val) == 0 {
						return false
					}
					v.Val[len(v.Val)-1] ^= 0x01
					return true
				}
			}
			return false
		})
	}
	add("replace the embedded certificate", func(t *p7Tree) bool {
		if t.certs == nil {
			return false
		}
		n, _ := der.Parse(c2.Raw)
		t.certs.Children = []*der.Node{n.Clone()}
		return true
	})
	add("remove the embedded certificates", func(t *p7Tree) bool {
		if t.certs == nil {
			return false
		}
		var ch []*der.Node
		for _, c := range t.sd.Children {
			if c != t.certs {
				ch = append(ch, c)
			}
		}
		t.sd.Children = ch
		return true
	})
	ias := func(t *p7Tree) *der.Node { return t.si.Children[1] }
	add("rewrite signer issuer to another certificate's", func(t *p7Tree) bool {
		ias(t).Children[0] = c2issuer.Clone()
		return true
	})
	add("rewrite signer serial to another certificate's", func(t *p7Tree) bool {
		ias(t).Children[1].Val = serialBytes(c2.SerialNumber)
		return true
	})
	add("rewrite signer issuer and serial to another certificate's", func(t *p7Tree) bool {
		ias(t).Children[0] = c2issuer.Clone()
		ias(t).Children[1].Val = serialBytes(c2.SerialNumber)
		return true
	})
	add("replace encryptedDigest by another key's signature over the same attributes", func(t *p7Tree) bool {
		if t.attrs == nil {
			return false
		}
		t.si.Children[t.sigIdx].Val = signAttrs(keys.K(2), t.attrs)
		return true
	})
	add("re-sign by another key and name that key's certificate", func(t *p7Tree) bool {
		if t.attrs == nil {
			return false
		}
		t.si.Children[t.sigIdx].Val = signAttrs(keys.K(2), t.attrs)
		ias(t).Children[0] = c2issuer.Clone()
		ias(t).Children[1].Val = serialBytes(c2.SerialNumber)
		return true
	})
	add("signed by another key; the embedded certificate replaced by that key's certificate with the same issuer and serial", func(t *p7Tree) bool {
		if t.attrs == nil || t.certs == nil {
			return false
		}
		t.si.Children[t.sigIdx].Val = signAttrs(keys.K(2), t.attrs)
		n, _ := der.Parse(s.SameName.Raw)
		t.certs.Children = []*der.Node{n.Clone()}
		return true
	})
	add("signed by another key; that key's same-issuer+serial certificate embedded in front of the genuine one", func(t *p7Tree) bool {
		if t.attrs == nil || t.certs == nil {
			return false
		}
		t.si.Children[t.sigIdx].Val = signAttrs(keys.K(2), t.attrs)
		n, _ := der.Parse(s.SameName.Raw)
		t.certs.Children = append([]*der.Node{n.Clone()}, t.certs.Children...)
		return true
	})
	add("corrupt encryptedDigest", func(t *p7Tree) bool {
		v := t.si.Children[t.sigIdx].Val
		v[len(v)/2] ^= 0x80
		return true
	})
	add("encryptedDigest longer than the key: a zero octet, non-zero octets, then the signature", func(t *p7Tree) bool {
		t.si.Children[t.sigIdx].Val = append([]byte{0x00, 0x01, 0x02}, t.si.Children[t.sigIdx].Val...)
		return true
	})
	add("encryptedDigest with one zero octet in front", func(t *p7Tree) bool {
		t.si.Children[t.sigIdx].Val = append([]byte{0x00}, t.si.Children[t.sigIdx].Val...)
		return true
	})
	add("encryptedDigest without its first octet", func(t *p7Tree) bool {
		t.si.Children[t.sigIdx].Val = t.si.Children[t.sigIdx].Val[1:]
		return true
	})
	add("encryptedDigest of 0xff octets, twice the key size", func(t *p7Tree) bool {
		t.si.Children[t.sigIdx].Val = bytes.Repeat([]byte{0xff}, 2*len(t.si.Children[t.sigIdx].Val))
		return true
	})
	add("truncate encryptedDigest", func(t *p7Tree) bool {
		t.si.Children[t.sigIdx].Val = t.si.Children[t.sigIdx].Val[:16]
		return true
	})
	if s.Key != nil {
		add("right key signs attributes with a changed messageDigest (content unchanged)", func(t *p7Tree) bool {
			if t.attrs == nil {
				return false
			}
			for _, a := range t.attrs.Children {
				if len(a.Children) == 2 && bytes.Equal(a.Children[0].Val, refp7.OIDMessageDigest) {
					a.Children[1].Children[0].Val[0] ^= 0xff
				}
			}
			t.si.Children[t.sigIdx].Val = signAttrs(s.Key, t.attrs)
			return true
		})
		// a comparison that is weaker than equality (checksums, folds, prefixes) takes these for the digest
		if t0.attrs != nil {
			for _, a := range t0.attrs.Children {
				if len(a.Children) == 2 && bytes.Equal(a.Children[0].Val, refp7.OIDMessageDigest) && len(a.Children[1].Children) == 1 {
					for _, tw := range weakeq.Twins(a.Children[1].Children[0].Val) {
						tw := tw
						add("right key signs attributes whose messageDigest is another value with "+tw.Name+" (content unchanged)", func(t *p7Tree) bool {
							for _, a := range t.attrs.Children {
								if len(a.Children) == 2 && bytes.Equal(a.Children[0].Val, refp7.OIDMessageDigest) {
									a.Children[1].Children[0].Val = append([]byte{}, tw.Value...)
								}
							}
							t.si.Children[t.sigIdx].Val = signAttrs(s.Key, t.attrs)
							return true
						})
					}
				}
			}
		}
		add("right key signs permuted attributes", func(t *p7Tree) bool {
			if t.attrs == nil || len(t.attrs.Children) < 2 {
				return false
			}
			n := len(t.attrs.Children)
			t.attrs.Children[0], t.attrs.Children[n-1] = t.attrs.Children[n-1], t.attrs.Children[0]
			t.si.Children[t.sigIdx].Val = signAttrs(s.Key, t.attrs)
			return true
		})
	}
	add("second SignerInfo (valid for another certificate) appended", func(t *p7Tree) bool {
		if t.attrs == nil {
			return false
		}
		n := t.si.Clone()
		n.Children[1].Children[0] = c2issuer.Clone()
		n.Children[1].Children[1].Val = serialBytes(c2.SerialNumber)
		for j, ch := range n.Children {
			if ch.Tag == 0x04 {
				n.Children[j].Val = signAttrs(keys.K(2), t.attrs)
			}
		}
		t.signers.Children = append(t.signers.Children, n)
		return true
	})
	add("second SignerInfo (valid for another certificate) prepended", func(t *p7Tree) bool {
		if t.attrs == nil {
			return false
		}
		n := t.si.Clone()
		n.Children[1].Children[0] = c2issuer.Clone()
		n.Children[1].Children[1].Val = serialBytes(c2.SerialNumber)
		for j, ch := range n.Children {
			if ch.Tag == 0x04 {
				n.Children[j].Val = signAttrs(keys.K(2), t.attrs)
			}
		}
		t.signers.Children = append([]*der.Node{n}, t.signers.Children...)
		return true
	})
	add("garbage SignerInfo naming the certificate prepended", func(t *p7Tree) bool {
		n := t.si.Clone()
		for j, ch := range n.Children {
			if ch.Tag == 0x04 {
				n.Children[j].Val = bytes.Repeat([]byte{0x01}, len(ch.Val))
			}
		}
		t.signers.Children = append([]*der.Node{n}, t.signers.Children...)
		return true
	})
	// multi-signer forgeries: the content is replaced and ANOTHER signer entry vouches for it
	setDigest := func(attrs *der.Node, d []byte) {
		for _, a := range attrs.Children {
			if len(a.Children) == 2 && bytes.Equal(a.Children[0].Val, refp7.OIDMessageDigest) && len(a.Children[1].Children) == 1 {
				a.Children[1].Children[0].Val = d
			}
		}
	}
	for _, first := range []bool{true, false} {
		first := first
		pos := "last"
		if first {
			pos = "first"
		}
		add("content replaced; a second signer (another key, validly signed over the new content) placed "+pos, func(t *p7Tree) bool {
			if t.attrs == nil || len(t.ci.Children) != 2 {
				return false
			}
			flipLeaf(t.ci.Children[1].Children[0])
			nd := sha256Of(t.ci.Children[1].Children[0].Content())
			n := t.si.Clone()
			n.Children[1].Children[0] = c2issuer.Clone()
			n.Children[1].Children[1].Val = serialBytes(c2.SerialNumber)
			var nattrs *der.Node
			for _, ch := range n.Children {
				if ch.Tag == 0xa0 {
					nattrs = ch
				}
			}
			setDigest(nattrs, nd)
			for j, ch := range n.Children {
				if ch.Tag == 0x04 {
					n.Children[j].Val = signAttrs(keys.K(2), nattrs)
				}
			}
			if first {
				t.signers.Children = append([]*der.Node{n}, t.signers.Children...)
			} else {
				t.signers.Children = append(t.signers.Children, n)
			}
			return true
		})
		add("content replaced; a decoy signer entry (other serial, garbage signature) carrying the new digest placed "+pos, func(t *p7Tree) bool {
			if t.attrs == nil || len(t.ci.Children) != 2 {
				return false
			}
			flipLeaf(t.ci.Children[1].Children[0])
			nd := sha256Of(t.ci.Children[1].Children[0].Content())
			n := t.si.Clone()
			sv := n.Children[1].Children[1].Val
			sv[len(sv)-1] ^= 0x5a
			for _, ch := range n.Children {
				if ch.Tag == 0xa0 {
					setDigest(ch, nd)
				}
			}
			if first {
				t.signers.Children = append([]*der.Node{n}, t.signers.Children...)
			} else {
				t.signers.Children = append(t.signers.Children, n)
			}
			return true
		})
	}
	// other encodings of the signer's serial number
	add("signer serial number without its leading zero octet (a negative number with the same low bits)", func(t *p7Tree) bool {
		v := ias(t).Children[1].Val
		if len(v) < 2 || v[0] != 0 {
			return false
		}
		ias(t).Children[1].Val = v[1:]
		return true
	})
	add("signer serial number with the sign bit flipped by a 0xff octet in front", func(t *p7Tree) bool {
		ias(t).Children[1].Val = append([]byte{0xff}, ias(t).Children[1].Val...)
		return true
	})
	add("signer serial number with redundant leading zero octets", func(t *p7Tree) bool {
		ias(t).Children[1].Val = append([]byte{0, 0}, ias(t).Children[1].Val...)
		return true
	})
	// unauthenticated attributes ([1] after the signature): nothing in there is signed
	unauth := func(t *p7Tree, attrs ...*der.Node) {
		t.si.Children = append(t.si.Children, der.Cons(0xa1, attrs...))
	}
	attr := func(oid []byte, val *der.Node) *der.Node {
		return der.Cons(0x30, der.Prim(0x06, oid), der.Cons(0x31, val))
	}
	add("content replaced; the new content's digest supplied as an UNSIGNED messageDigest attribute", func(t *p7Tree) bool {
		if t.attrs == nil || len(t.ci.Children) != 2 {
			return false
		}
		flipLeaf(t.ci.Children[1].Children[0])
		unauth(t, attr(refp7.OIDMessageDigest, der.Prim(0x04, sha256Of(t.ci.Children[1].Children[0].Content()))))
		return true
	})
	add("inner content type replaced; the new type supplied as an UNSIGNED contentType attribute", func(t *p7Tree) bool {
		if t.attrs == nil {
			return false
		}
		t.ci.Children[0].Val = der.OID(1, 2, 840, 113549, 1, 7, 5)
		unauth(t, attr(refp7.OIDContentType, der.Prim(0x06, der.OID(1, 2, 840, 113549, 1, 7, 5))))
		return true
	})
	add("signed attributes dropped; the same attributes supplied as UNSIGNED attributes", func(t *p7Tree) bool {
		if t.attrs == nil {
			return false
		}
		var ch []*der.Node
		for _, c := range t.si.Children {
			if c != t.attrs {
				ch = append(ch, c)
			}
		}
		t.si.Children = ch
		unauth(t, t.attrs.Children...)
		return true
	})
	for _, first := range []bool{true, false} {
		first := first
		pos := map[bool]string{true: "first", false: "last"}[first]
		for _, sigKind := range []string{"garbage signature", "the genuine signature value"} {
			sigKind := sigKind
			add("content replaced; a forged signer entry naming the SAME certificate ("+sigKind+") carrying the new digest placed "+pos, func(t *p7Tree) bool {
				if t.attrs == nil || len(t.ci.Children) != 2 {
					return false
				}
				flipLeaf(t.ci.Children[1].Children[0])
				nd := sha256Of(t.ci.Children[1].Children[0].Content())
				n := t.si.Clone()
				for j, ch := range n.Children {
					if ch.Tag == 0xa0 {
						setDigest(ch, nd)
					}
					if ch.Tag == 0x04 && sigKind == "garbage signature" {
						n.Children[j].Val = bytes.Repeat([]byte{0x01}, len(ch.Val))
					}
				}
				if first {
					t.signers.Children = append([]*der.Node{n}, t.signers.Children...)
				} else {
					t.signers.Children = append(t.signers.Children, n)
				}
				return true
			})
		}
	}
	add("no SignerInfo", func(t *p7Tree) bool {
		t.signers.Children = nil
		return true
	})
	// raw (non-tree) edits: non-minimal and indefinite lengths on the attribute block
	if t0.attrs != nil {
		r0, _ := der.Parse(s.Blob)
		var find func(n *der.Node) *der.Node
		find = func(n *der.Node) *der.Node {
			if n.Tag == 0xa0 && len(n.Children) > 0 && n.Children[0].Tag == 0x30 && len(n.Children[0].Children) == 2 && n.Children[0].Children[0].Tag == 0x06 &&
				n.Children[0].Children[1].Tag == 0x31 {
				return n
			}
			for _, c := range n.Children {
				if f := find(c); f != nil {
					return f
				}
			}
			return nil
		}
		if a := find(r0); a != nil && a.Len < 0x80 {
			// one-byte length -> 0x81 form: all enclosing lengths grow by one; do it via the tree on a marker
			t, _ := p7Open(s.Blob)
			enc := t.attrs.Encode()
			nm := append([]byte{enc[0], 0x81, enc[1]}, enc[2:]...)
			out = append(out, p7Edit{Name: "non-minimal length on the signed attributes", Blob: spliceRaw(t, nm)})
		}
	}

	// ---- forgeries that need no private key (round 8) ----
	// (a) RSA e=3: cube roots that a block-parsing verifier accepts
	if pub, ok := s.Signer.PublicKey.(*rsa.PublicKey); ok && pub.E == 3 && t0.attrs != nil {
		set := append([]byte{}, t0.attrs.Bytes()...)
		set[0] = 0x31
		h := sha256.Sum256(set)
		for _, f := range keys.ForgeE3(pub, h[:]) {
			f := f
			add("encryptedDigest replaced, without the private key, by a "+f.Name, func(t *p7Tree) bool {
				t.si.Children[t.sigIdx].Val = f.Sig
				return true
			})
		}
		// a changed messageDigest with a forged signature over the changed attributes; an extra signed
		// attribute is varied until the attribute digest is odd (the digest-at-the-end forgery needs that)
		for ctr := 0; ctr < 64; ctr++ {
			t, _ := p7Open(s.Blob)
			for _, a := range t.attrs.Children {
				if len(a.Children) == 2 && bytes.Equal(a.Children[0].Val, refp7.OIDMessageDigest) {
					a.Children[1].Children[0].Val[0] ^= 0xff
				}
			}
			t.attrs.Children = append(t.attrs.Children, der.Cons(0x30, der.Prim(0x06, der.OID(1, 3, 6, 1, 4, 1, 99999, 8, 1)), der.Cons(0x31, der.Prim(0x02, []byte{byte(ctr)}))))
			set := append([]byte{}, t.attrs.Encode()...)
			set[0] = 0x31
			h := sha256.Sum256(set)
			if h[31]&1 == 0 {
				continue
			}
			for _, f := range keys.ForgeE3(pub, h[:]) {
				t.si.Children[t.sigIdx].Val = f.Sig
				out = append(out, p7Edit{Name: "messageDigest changed; encryptedDigest made, without the private key, by a " + f.Name, Blob: t.root.Encode()})
			}
			break
		}
	}
	// (b) chain confusion: a certificate of another key that merely CLAIMS the verifying certificate as issuer
	{
		k3 := keys.K(3)
		tmpl := &x509.Certificate{SerialNumber: big.NewInt(0x7777), Subject: pkix.Name{CommonName: "claims to be issued by the verifying certificate"},
			NotBefore: keys.NotBefore, NotAfter: keys.NotAfter, SignatureAlgorithm: x509.SHA256WithRSA, KeyUsage: x509.KeyUsageDigitalSignature,
			ExtKeyUsage: []x509.ExtKeyUsage{x509.ExtKeyUsageCodeSigning}, BasicConstraintsValid: true, AuthorityKeyId: s.Signer.SubjectKeyId}
		parent := &x509.Certificate{RawSubject: s.Signer.RawSubject, Subject: s.Signer.Subject, SubjectKeyId: s.Signer.SubjectKeyId}
		if cd, err := x509.CreateCertificate(rand.Reader, tmpl, parent, &k3.PublicKey, k3); err == nil {
			child, _ := x509.ParseCertificate(cd)
			chIssuer, _ := der.Parse(child.RawIssuer)
			chNode, _ := der.Parse(child.Raw)
			add("signed by another key whose embedded certificate names the verifying certificate as its issuer (not signed by it)", func(t *p7Tree) bool {
				if t.attrs == nil || t.certs == nil || chIssuer == nil || chNode == nil {
					return false
				}
				t.certs.Children = append([]*der.Node{chNode.Clone()}, t.certs.Children...)
				t.si.Children[1].Children[0] = chIssuer.Clone()
				t.si.Children[1].Children[1].Val = serialBytes(child.SerialNumber)
				t.si.Children[t.sigIdx].Val = signAttrs(k3, t.attrs)
				return true
			})
		}
	}
	// (c) signed attributes / content confusion: what the key signed was the attribute SET; offer those
	// very bytes as the content of an attribute-less signer
	if t0.attrs != nil {
		for _, wrap := range []string{"directly", "inside an OCTET STRING"} {
			wrap := wrap
			add("signed attributes dropped and their SET encoding (what the signature covers) placed "+wrap+" as the encapsulated content", func(t *p7Tree) bool {
				set := append([]byte{}, t.attrs.Bytes()...)
				set[0] = 0x31
				inner, err := der.Parse(set)
				if err != nil {
					return false
				}
				var kids []*der.Node
				for _, ch := range t.si.Children {
					if ch != t.attrs {
						kids = append(kids, ch)
					}
				}
				t.si.Children = kids
				payload := inner.Clone()
				if wrap != "directly" {
					payload = der.Prim(0x04, set)
				}
				t.ci.Children = []*der.Node{t.ci.Children[0], der.Cons(0xa0, payload)}
				return true
			})
		}
	}
	// (e) an element more than the structure has, appended at every level (what a decoder that reads
	// "the first element" and drops the rest lets through): inside the content wrapper the unsigned
	// element rides along with signed content
	{
		levels := []struct {
			name string
			pick func(t *p7Tree) *der.Node
		}{
			{"the content wrapper [0], after the content", func(t *p7Tree) *der.Node {
				if len(t.ci.Children) > 1 {
					return t.ci.Children[1]
				}
				return nil
			}},
			{"the encapsulated ContentInfo", func(t *p7Tree) *der.Node { return t.ci }},
			{"the SignerInfo", func(t *p7Tree) *der.Node { return t.si }},
			{"the issuerAndSerialNumber", func(t *p7Tree) *der.Node { return t.si.Children[1] }},
			{"the SignedData", func(t *p7Tree) *der.Node { return t.sd }},
			{"the outer ContentInfo", func(t *p7Tree) *der.Node {
				if t.root == t.sd {
					return nil
				}
				return t.root
			}},
		}
		for _, lv := range levels {
			lv := lv
			for _, what := range []string{"an OCTET STRING", "a copy of the last element"} {
				what := what
				add("one element more ("+what+") appended inside "+lv.name, func(t *p7Tree) bool {
					n := lv.pick(t)
					if n == nil || len(n.Children) == 0 {
						return false
					}
					extra := der.Prim(0x04, []byte("rides along unsigned"))
					if what != "an OCTET STRING" {
						extra = n.Children[len(n.Children)-1].Clone()
					}
					n.Children = append(n.Children, extra)
					return true
				})
			}
		}
	}
	// (f) Authenticode: the data type inside SpcIndirectDataContent replaced by its neighbours in the
	// same OID arc (other Spc* types) and by shorter / longer identifiers
	if len(t0.ci.Children) > 1 && len(t0.ci.Children[1].Children) == 1 {
		if in := t0.ci.Children[1].Children[0]; in.Tag == 0x30 && len(in.Children) == 2 && len(in.Children[0].Children) >= 1 && in.Children[0].Children[0].Tag == 0x06 {
			for _, oid := range [][]uint64{{1, 3, 6, 1, 4, 1, 311, 2, 1, 21}, {1, 3, 6, 1, 4, 1, 311, 2, 1, 25}, {1, 3, 6, 1, 4, 1, 311, 2, 1, 4}, {1, 3, 6, 1, 4, 1, 311, 2, 1}, {1, 3, 6, 1, 4, 1, 311, 2, 1, 15, 1}, {2, 5}} {
				oid := oid
				add("data type of the SpcIndirectDataContent replaced by another object identifier", func(t *p7Tree) bool {
					t.ci.Children[1].Children[0].Children[0].Children[0].Val = der.OID(oid...)
					return true
				})
			}
		}
	}
	// (g) the signer identified otherwise than by issuer and serial: the CMS subjectKeyIdentifier form
	// ([0] IMPLICIT OCTET STRING) with an empty value, with the certificate's own key identifier, with
	// 20 zero octets; an empty issuerAndSerialNumber
	for _, sid := range []struct {
		name string
		val  []byte
	}{{"an empty subjectKeyIdentifier [0]", nil}, {"the certificate's subjectKeyIdentifier [0]", s.Signer.SubjectKeyId}, {"a subjectKeyIdentifier [0] of 20 zero octets", make([]byte, 20)}} {
		sid := sid
		if sid.val == nil && sid.name != "an empty subjectKeyIdentifier [0]" {
			continue
		}
		add("signer identifier replaced by "+sid.name, func(t *p7Tree) bool {
			t.si.Children[1] = der.Prim(0x80, sid.val)
			return true
		})
	}
	// (h) what a "retry over the re-encoded attributes" trips over: the contentType attribute removed and
	// the remaining attributes in descending order (the signature no longer verifies)
	add("contentType attribute removed, the remaining attributes in descending order", func(t *p7Tree) bool {
		if t.attrs == nil || len(t.attrs.Children) < 3 {
			return false
		}
		var keep []*der.Node
		for _, a := range t.attrs.Children {
			if len(a.Children) == 2 && bytes.Equal(a.Children[0].Val, refp7.OIDContentType) {
				continue
			}
			keep = append(keep, a)
		}
		sort.Slice(keep, func(i, j int) bool { return bytes.Compare(keep[i].Encode(), keep[j].Encode()) > 0 })
		t.attrs.Children = keep
		return true
	})
	add("only the messageDigest attribute kept, twice, the larger first", func(t *p7Tree) bool {
		if t.attrs == nil {
			return false
		}
		for _, a := range t.attrs.Children {
			if len(a.Children) == 2 && bytes.Equal(a.Children[0].Val, refp7.OIDMessageDigest) {
				b := a.Clone()
				b.Children[1].Children[0].Val[0] ^= 0xff
				x, y := a.Clone(), b
				if bytes.Compare(x.Encode(), y.Encode()) < 0 {
					x, y = y, x
				}
				t.attrs.Children = []*der.Node{x, y}
				return true
			}
		}
		return false
	})
	// (d) BER constructed OCTET STRING content (tag 0x24): well-formed and malformed segments
	{
		orig := []byte("content that was never signed")
		if len(t0.ci.Children) > 1 && len(t0.ci.Children[1].Children) == 1 && t0.ci.Children[1].Children[0].Tag == 0x04 {
			orig = t0.ci.Children[1].Children[0].Val
		}
		half := len(orig) / 2
		type seg struct {
			name string
			raw  []byte
			ro   bool
		}
		segs := []seg{
			{"two well-formed segments", append(der.Prim(0x04, orig[:half]).Encode(), der.Prim(0x04, orig[half:]).Encode()...), true},
			{"a segment whose length runs past the end of the string", append(der.Prim(0x04, orig[:half]).Encode(), 0x04, 0x7f, 0x01, 0x02), false},
			{"an INTEGER where a segment should be", append(der.Prim(0x04, orig[:half]).Encode(), 0x02, 0x01, 0x05), false},
			{"one stray octet after the segments", append(der.Prim(0x04, orig).Encode(), 0x04), false},
			{"no segments", nil, false},
			{"a nested constructed segment", append([]byte{0x24, byte(2 + half)}, der.Prim(0x04, orig[:half]).Encode()...), false},
			{"an indefinite-length segment without end-of-contents", append([]byte{0x24, 0x80}, der.Prim(0x04, orig[:half]).Encode()...), false},
		}
		for _, sg := range segs {
			sg := sg
			if len(sg.raw) > 120 || half > 100 {
				continue
			}
			t, err := p7Open(s.Blob)
			if err != nil {
				continue
			}
			// a primitive marker of the same length stands in the tree; its tag byte is then made 0x24
			marker := der.Prim(0x04, sg.raw)
			t.ci.Children = []*der.Node{t.ci.Children[0], der.Cons(0xa0, marker)}
			enc := t.root.Encode()
			menc := marker.Encode()
			if i := bytes.Index(enc, menc); i >= 0 && bytes.Count(enc, menc) == 1 {
				enc[i] = 0x24
				out = append(out, p7Edit{Name: "encapsulated content replaced by a constructed OCTET STRING (BER, tag 0x24) with " + sg.name, Blob: enc, RobustOnly: sg.ro})
			}
		}
	}
	return out
}

// spliceRaw re-encodes the tree with the attribute node replaced by raw bytes.
func spliceRaw(t *p7Tree, raw []byte) []byte {
	var enc func(n *der.Node) []byte
	enc = func(n *der.Node) []byte {
		if n == t.attrs {
			return raw
		}
		if !n.Constructed() {
			return n.Encode()
		}
		var c []byte
		for _, ch := range n.Children {
			c = append(c, enc(ch)...)
		}
		h := append([]byte{n.Tag}, derLen(len(c))...)
		return append(h, c...)
	}
	return enc(t.root)
}

func derLen(l int) []byte {
	switch {
	case l < 0x80:
		return []byte{byte(l)}
	case l < 0x100:
		return []byte{0x81, byte(l)}
	case l < 0x10000:
		return []byte{0x82, byte(l >> 8), byte(l)}
	}
	return []byte{0x83, byte(l >> 16), byte(l >> 8), byte(l)}
}

func flipLeaf(n *der.Node) {
	if !n.Constructed() {
		if len(n.Val) > 0 {
			n.Val[len(n.Val)-1] ^= 0x01
		}
		return
	}
	for i := len(n.Children) - 1; i >= 0; i-- {
		flipLeaf(n.Children[i])
		return
	}
}

func serialBytes(v *big.Int) []byte {
	b := v.Bytes()
	if len(b) == 0 {
		return []byte{0}
	}
	if b[0]&0x80 != 0 {
		b = append([]byte{0}, b...)
	}
	return b
}

var _ = pkix.Name{}

func sha256Of(b []byte) []byte {
	h := sha256.Sum256(b)
	return h[:]
}
