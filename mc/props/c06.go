//go:build !verifsched

package props

import (
	"bytes"
	"crypto/x509"
	"encoding/binary"
	"fmt"
	"math/big"
	"strconv"
	"strings"
	"time"
	_ "time/tzdata" // zone rules embedded: daylight-saving zones are part of the alphabet

	"github.com/foxboron/go-uefi/efi/attributes"
	"github.com/foxboron/go-uefi/efi/signature"
	"github.com/foxboron/go-uefi/efi/util"
	"github.com/foxboron/go-uefi/efivar"
	"github.com/foxboron/go-uefi/pkcs7"

	"verif/internal/hx"
	"verif/internal/ossl"
	"verif/keys"
	"verif/ref/der"
	"verif/ref/refauth"
	"verif/ref/refesl"
	"verif/ref/refp7"
	"verif/shim/vtime"
)

func init() {
	hx.Register(&hx.Prop{
		ID:    "C06",
		Level: "exploration",
		Rule: "signed updates produced by SignEFIVariable under a harness-controlled clock: (names: 25 predefined, A, each of the 95 printable ASCII characters, a 64-character name) x payloads {empty bytes, empty database, 1 hash, 3 hashes, certificate list, raw 1/7/8/4096/70000 bytes} x attribute masks {7, 0x27, 0x67}; " +
			"all 256 attribute masks x 2 payloads; GUIDs {asymmetric A, asymmetric B, leading-zero fields}; keys RSA-2048 (RSA-4096 on a subset), self-signed and CA-issued (issuer != subject) certificates; clock instants {ordinary, 31 Dec 23:59:59, 29 Feb, DST change, year 2040, first and last second of the UTCTime window, 2100, 9999, 1970} x zones {UTC, +09:00, -08:00, +05:45, +14:00, -12:00}. " +
			"oracle: bytes 0-15 are the EFI_TIME of the instant in UTC with pad/nanosecond/timezone/daylight zero; dwLength = 24 + signature length; revision 0x0200; type 0x0EF1; PKCS7 type GUID in wire order; CertData is a bare SignedData; the rest equals the payload; " +
			"an independent verifier accepts the detached SHA-256 signature over name(UTF-16LE, unterminated)||GUID||attributes||timestamp||payload and rejects each of: any component changed in one byte, terminator added, components reordered, component dropped; openssl smime -verify agrees on a subset. " +
			"non-trivial = all clauses evaluated; distinct = distinct (name, GUID, mask, payload, key, instant, zone)",
		Assumptions: []string{"clock and zone are injected through the vtime shim (time.Now redirected by the overlay)", "names are ASCII (the statement's domain)"},
		Units: func(tier string) []string {
			return []string{"names#0", "names#1", "names#2", "names#3", "masks", "guids", "clock", "openssl", "ca-issued", "stepping-clock"}
		},
		Run:    c06Run,
		Budget: dur(5*time.Minute, 30*time.Minute),
	})
}

type c06Payload struct {
	name string
	m    efivar.Marshallable
	enc  []byte
}

func c06Payloads() []c06Payload {
	mkdb := func(ls []refesl.List) (efivar.Marshallable, []byte) {
		enc := refesl.Encode(ls)
		db, err := signature.ReadSignatureDatabase(bytes.NewReader(enc))
		if err != nil {
			panic(err)
		}
		return &db, enc
	}
	h := func(p byte) refesl.Entry { return refesl.Entry{Owner: ownerA, Data: fill(32, p)} }
	var out []c06Payload
	out = append(out, c06Payload{"empty-bytes", rawval{}, nil})
	m, e := mkdb(nil)
	out = append(out, c06Payload{"empty-db", m, e})
	m, e = mkdb([]refesl.List{refesl.Mk(refesl.SHA256, 48, h(1))})
	out = append(out, c06Payload{"1-hash", m, e})
	m, e = mkdb([]refesl.List{refesl.Mk(refesl.SHA256, 48, h(1), h(2), h(3))})
	out = append(out, c06Payload{"3-hashes", m, e})
	m, e = mkdb([]refesl.List{refesl.Mk(refesl.X509, uint32(16+len(keys.C(1).Raw)), refesl.Entry{Owner: ownerB, Data: keys.C(1).Raw})})
	out = append(out, c06Payload{"cert-list", m, e})
	for _, n := range []int{1, 7, 8, 4096, 70000} {
		out = append(out, c06Payload{"raw-" + strconv.Itoa(n), rawval(fill(n, 0x6b)), fill(n, 0x6b)})
	}
	// payloads that themselves look like what the function produces (a payload is opaque): a genuine
	// signed update, a well-formed descriptor header with the PKCS7 type GUID over junk, a descriptor
	// followed by lists, a DER SignedData
	{
		vtime.Set(time.Date(2024, 5, 6, 7, 8, 9, 0, time.UTC))
		db, _ := signature.ReadSignatureDatabase(bytes.NewReader(refesl.Encode([]refesl.List{refesl.Mk(refesl.SHA256, 48, h(9))})))
		if _, su, err := signature.SignEFIVariable(efivar.Db, &db, memoSignerFor(1), keys.C(1)); err == nil {
			b := append([]byte{}, su.Bytes()...)
			out = append(out, c06Payload{"a-genuine-signed-update-as-payload", rawval(b), b})
		}
		p7guid := []byte{0x9d, 0xd2, 0xaf, 0x4a, 0xdf, 0x68, 0xee, 0x49, 0x8a, 0xa9, 0x34, 0x7d, 0x37, 0x56, 0x65, 0xa7}
		hdr := append([]byte{0xe8, 0x07, 5, 6, 7, 8, 9, 0, 0, 0, 0, 0, 0, 0, 0, 0}, 24+10, 0, 0, 0, 0x00, 0x02, 0xf1, 0x0e)
		look := append(append(append([]byte{}, hdr...), p7guid...), fill(10, 0x30)...)
		look = append(look, refesl.Encode([]refesl.List{refesl.Mk(refesl.SHA256, 48, h(4))})...)
		out = append(out, c06Payload{"descriptor-look-alike-then-a-list", rawval(look), look})
		if blob, err := pkcs7.SignPKCS7(memoSignerFor(1), keys.C(1), pkcs7.OIDData, []byte("x")); err == nil {
			out = append(out, c06Payload{"a-DER-SignedData-as-payload", rawval(blob), blob})
		}
	}
	return out
}

func utf16Name(s string) []byte {
	var b []byte
	for _, r := range s {
		b = append(b, byte(r), byte(r>>8))
	}
	return b
}

// c06Check signs one update and applies the whole oracle.
func c06Check(c *hx.Ctx, name string, guid util.EFIGUID, attrs uint32, pl c06Payload, k int, instant time.Time, sess *ossl.Session) {
	c06CheckCert(c, name, guid, attrs, pl, k, keys.C(k), instant, sess)
}

func c06CheckCert(c *hx.Ctx, name string, guid util.EFIGUID, attrs uint32, pl c06Payload, k int, signerCert *x509.Certificate, instant time.Time, sess *ossl.Session) {
	if !c.Next() {
		return
	}
	stepping := c06Stepping
	if stepping {
		vtime.SetStepping(instant, time.Second)
	} else {
		vtime.Set(instant)
	}
	label := fmt.Sprintf("name=%q guid=%s attrs=%#x payload=%s key=k%d cert=%q instant=%s", name, refFormat(guid), attrs, pl.name, k, signerCert.Subject.CommonName, instant.Format(time.RFC3339))
	g := guid
	v := efivar.Efivar{Name: name, GUID: &g, Attributes: attributes.Attributes(attrs)}
	var out []byte
	var err error
	var cert *x509.Certificate = signerCert
	var held efivar.Marshallable
	scribbled := true
	if pn := hx.Try(func() {
		var m efivar.Marshallable
		_, m, err = signature.SignEFIVariable(v, pl.m, memoSignerFor(k), cert)
		if err == nil {
			out = m.Bytes()
			held = m
		}
	}); pn != nil {
		c.Outcome("panic")
		c.Violation("C06 SignEFIVariable ends in "+pn.String(), map[string]any{"case": label})
		return
	}
	if err != nil {
		c.Outcome("error")
		c.Violation("C06 SignEFIVariable fails for valid inputs", map[string]any{"case": label, "error": err.Error()})
		return
	}
	if scribbled {
		// the caller reused the storage of its payload after signing; the update must still be
		// the one that was signed
		if rv, ok := pl.m.(rawval); ok {
			for i := range rv {
				rv[i] ^= 0xff
			}
			out2 := held.Bytes()
			for i := range rv {
				rv[i] ^= 0xff
			}
			if !bytes.Equal(out2, out) {
				c.Outcome("violation")
				c.Violation("C06 the signed update changes when the caller reuses the storage of the payload it passed in", map[string]any{"case": label})
				return
			}
		}
	}
	bad := func(what string, extra map[string]any) {
		d := map[string]any{"case": label, "update": hx8(out)}
		for k, v := range extra {
			d[k] = v
		}
		c.Outcome("violation")
		c.Violation("C06 "+what, d)
	}
	a, n, perr := refauth.ParseAuth2(out)
	if perr != nil {
		bad("update does not start with a well-formed descriptor", map[string]any{"error": perr.Error()})
		return
	}
	u := instant.UTC()
	if stepping {
		// the clock advanced by one second at every reading: the descriptor must carry ONE of the
		// instants read during the call (which one is not prescribed), and that same instant must be
		// the one that was signed (checked by the verification over the rebuilt buffer below)
		okT := false
		for i := 0; i < vtime.Calls(); i++ {
			x := u.Add(time.Duration(i) * time.Second)
			if a.Time == (refauth.Time{Year: uint16(x.Year()), Month: uint8(x.Month()), Day: uint8(x.Day()), Hour: uint8(x.Hour()), Minute: uint8(x.Minute()), Second: uint8(x.Second())}) {
				okT = true
				u = x
			}
		}
		if !okT {
			bad("timestamp is none of the instants the clock showed during the call", nil)
			return
		}
	}
	want := refauth.Time{Year: uint16(u.Year()), Month: uint8(u.Month()), Day: uint8(u.Day()), Hour: uint8(u.Hour()), Minute: uint8(u.Minute()), Second: uint8(u.Second())}
	if a.Time != want {
		what := "timestamp is not the current time in UTC with zero pad/nanosecond/timezone/daylight fields"
		loc := instant
		if (refauth.Time{Year: uint16(loc.Year()), Month: uint8(loc.Month()), Day: uint8(loc.Day()), Hour: uint8(loc.Hour()), Minute: uint8(loc.Minute()), Second: uint8(loc.Second())}) == a.Time {
			what = "timestamp is the local wall-clock time, not UTC"
		}
		bad(what, map[string]any{"got": fmt.Sprintf("%+v", a.Time), "want": fmt.Sprintf("%+v", want)})
		return
	}
	switch {
	case a.Length != uint32(24+len(a.CertData)) || n != 16+int(a.Length):
		bad("dwLength is not 24 + signature length", nil)
		return
	case a.Revision != 0x0200:
		bad("wRevision is not 0x0200", nil)
		return
	case a.Type != 0x0EF1:
		bad("wCertificateType is not 0x0EF1", nil)
		return
	case a.CertType != [16]byte(guidPKCS7):
		bad("certificate type GUID is not EFI_CERT_TYPE_PKCS7_GUID in wire order", nil)
		return
	case !bytes.Equal(out[n:], pl.enc):
		bad("bytes after the descriptor are not the payload unchanged", map[string]any{"payload_len": len(pl.enc), "rest_len": len(out) - n})
		return
	}
	root, derr := der.Parse(a.CertData)
	if derr != nil || root.Tag != 0x30 || len(root.Children) == 0 || root.Children[0].Tag != 0x02 {
		bad("certificate data is not a bare DER SignedData (no ContentInfo wrapper)", nil)
		return
	}
	sd, perr2 := refp7.FromTree(root)
	if perr2 != nil || sd.Wrapped || sd.EContent != nil {
		bad("certificate data is not a detached bare SignedData", map[string]any{"error": fmt.Sprint(perr2)})
		return
	}
	if len(sd.DigestAlgs) != 1 || !bytes.Equal(sd.DigestAlgs[0], refp7.OIDSHA256) {
		bad("digest algorithm is not SHA-256", nil)
		return
	}
	// the signed buffer
	gw := wire(guid)
	comp := [][]byte{utf16Name(name), gw[:], binary.LittleEndian.AppendUint32(nil, attrs), a.Time.Bytes(), pl.enc}
	join := func(p [][]byte) []byte { return bytes.Join(p, nil) }
	if v := sd.Valid(cert, append([]byte{}, join(comp)...)); !v.OK {
		bad("independent verifier rejects the signature over name||GUID||attributes||timestamp||payload: "+v.Reason, nil)
		return
	}
	// and over nothing else
	alt := func(what string, buf []byte) bool {
		if v := sd.Valid(cert, append([]byte{}, buf...)); v.OK {
			bad("signature also verifies over another buffer: "+what, nil)
			return true
		}
		return false
	}
	for i, nm := range []string{"name", "GUID", "attributes", "timestamp", "payload"} {
		if len(comp[i]) == 0 {
			continue
		}
		cp := make([][]byte, len(comp))
		copy(cp, comp)
		mod := append([]byte{}, comp[i]...)
		mod[len(mod)-1] ^= 1
		cp[i] = mod
		if alt(nm+" changed in one byte", join(cp)) {
			return
		}
		mod2 := append([]byte{}, comp[i]...)
		mod2[0] ^= 0x80
		cp[i] = mod2
		if alt(nm+" changed in its first byte", join(cp)) {
			return
		}
	}
	if alt("name with NUL terminator", join([][]byte{append(utf16Name(name), 0, 0), comp[1], comp[2], comp[3], comp[4]})) ||
		alt("attributes before GUID", join([][]byte{comp[0], comp[2], comp[1], comp[3], comp[4]})) ||
		alt("timestamp before attributes", join([][]byte{comp[0], comp[1], comp[3], comp[2], comp[4]})) ||
		alt("payload only", comp[4]) ||
		alt("without timestamp", join([][]byte{comp[0], comp[1], comp[2], comp[4]})) ||
		alt("GUID in big-endian byte form", join([][]byte{comp[0], refBE(guid), comp[2], comp[3], comp[4]})) && refBE(guid)[0] != gw[0] ||
		alt("name as single bytes", join([][]byte{[]byte(name), comp[1], comp[2], comp[3], comp[4]})) {
		return
	}
	if ok, val := signingTimeIsDER(&sd.Signers[0]); !ok {
		bad("signingTime inside the SignedData is not in the DER form (UTC, seconds, 'Z')", map[string]any{"value": val})
		return
	}
	if !sd.Signers[0].Names(cert) || len(sd.Certs) != 1 || !bytes.Equal(sd.Certs[0], cert.Raw) {
		bad("signer identity / embedded certificate is not the given certificate", nil)
		return
	}
	if sess != nil {
		wrapped := der.Cons(0x30, der.Prim(0x06, refp7.OIDSignedData), der.Cons(0xa0, root)).Encode()
		if ok, e := sess.Verify("smime", wrapped, cert, join(comp)); !ok {
			bad("openssl smime -verify rejects the signature over the rebuilt buffer", map[string]any{"stderr": e})
			return
		}
		c.Outcome("openssl-agrees")
	}
	c.Outcome("update-ok")
	c.Nontrivial([]byte(label))
}

// c06Stepping selects the stepping clock (every reading of the clock is one second later).
var c06Stepping bool

func c06Names() []string {
	var n []string
	for _, v := range c11Predefined {
		n = append(n, v.Name)
	}
	n = append(n, "A", strings.Repeat("LongVariableName", 4))
	for ch := 0x20; ch <= 0x7e; ch++ {
		n = append(n, string(rune(ch)))
	}
	return n
}

func c06Run(c *hx.Ctx, tier, unit string) {
	defer vtime.Unset()
	t0 := time.Date(2024, 5, 6, 7, 8, 9, 0, time.UTC)
	gA := unwire(ownerA)
	pls := c06Payloads()
	thorough := tier == "thorough"
	switch {
	case strings.HasPrefix(unit, "names#"):
		k, _ := strconv.Atoi(strings.TrimPrefix(unit, "names#"))
		for ni, name := range c06Names() {
			if ni%4 != k {
				continue
			}
			for pi, pl := range pls {
				for ai, at := range []uint32{0x07, 0x27, 0x67} {
					if !thorough && ni >= 27 && (pi+ai+ni)%3 != 0 {
						continue // single-character names: pairwise thinning in quick
					}
					key := 1
					if thorough && (ni+pi)%7 == 0 {
						key = 4
					}
					if ni == 2 && pi == 3 && ai == 1 {
						c.Sample(map[string]any{"name": name, "payload": pl.name, "attrs": at})
					}
					c06Check(c, name, gA, at, pl, key, t0, nil)
					if c.Expired() {
						return
					}
				}
			}
		}
	case unit == "masks":
		for at := uint32(0); at < 256; at++ {
			c06Check(c, "db", *efivar.Db.GUID, at, pls[3], 1, t0, nil)
			c06Check(c, "A", gA, at, pls[5], 1, t0, nil)
		}
		for _, at := range []uint32{0x100, 0x80000027, 0xffffffff} {
			c06Check(c, "db", *efivar.Db.GUID, at, pls[2], 1, t0, nil)
		}
	case unit == "guids":
		for _, g := range []util.EFIGUID{gA, unwire(ownerB), {Data1: 0x0000000a, Data2: 0x000b, Data3: 0x0c00, Data4: [8]byte{0, 0xd, 0, 0, 0, 0, 0, 0xe}}, *efivar.PK.GUID, *efivar.Db.GUID} {
			for _, pl := range pls {
				c06Check(c, "KEK", g, 0x27, pl, 1, t0, nil)
				c06Check(c, "KEK", g, 0x27, pl, 4, t0, nil)
			}
		}
	case unit == "clock":
		instants := []time.Time{t0, time.Date(2023, 12, 31, 23, 59, 59, 999, time.UTC), time.Date(2024, 2, 29, 12, 0, 0, 0, time.UTC),
			time.Date(2024, 3, 31, 1, 0, 0, 0, time.UTC), time.Date(2040, 1, 19, 3, 14, 8, 0, time.UTC), time.Date(2024, 1, 1, 0, 0, 0, 0, time.UTC),
			time.Date(2049, 12, 31, 23, 59, 59, 0, time.UTC), time.Date(2050, 1, 1, 0, 0, 0, 0, time.UTC), time.Date(2100, 2, 28, 12, 0, 0, 0, time.UTC), time.Date(9999, 12, 31, 23, 59, 59, 0, time.UTC), time.Date(1970, 1, 1, 0, 0, 0, 0, time.UTC)}
		zones := []*time.Location{time.UTC, time.FixedZone("+09:00", 9*3600), time.FixedZone("-08:00", -8*3600), time.FixedZone("+05:45", 5*3600+45*60),
			time.FixedZone("+14:00", 14*3600), time.FixedZone("-12:00", -12*3600)}
		// zones with daylight saving time, at instants inside the repeated hour (clocks going back), inside
		// the skipped hour (clocks going forward) and right at the transitions: a conversion that goes
		// through the local wall-clock fields is ambiguous exactly there
		for _, zn := range []string{"Europe/Berlin", "America/New_York", "Australia/Lord_Howe", "America/St_Johns"} {
			loc, lerr := time.LoadLocation(zn)
			if lerr != nil {
				c.Note("time zone %s not available: %v", zn, lerr)
				continue
			}
			for _, base := range []time.Time{time.Date(2024, 10, 27, 0, 0, 0, 0, time.UTC), time.Date(2024, 3, 31, 0, 0, 0, 0, time.UTC), time.Date(2024, 11, 3, 5, 0, 0, 0, time.UTC),
				time.Date(2024, 3, 10, 6, 0, 0, 0, time.UTC), time.Date(2024, 4, 6, 14, 30, 0, 0, time.UTC), time.Date(2024, 10, 5, 15, 0, 0, 0, time.UTC)} {
				for m := -90; m <= 150; m += 30 {
					in := base.Add(time.Duration(m)*time.Minute + 17*time.Second)
					c06Check(c, "db", *efivar.Db.GUID, 0x27, pls[3], 1, in.In(loc), nil)
				}
			}
		}
		for _, in := range instants {
			for _, z := range zones {
				c.Sample(map[string]any{"instant_utc": in.Format(time.RFC3339), "zone": z.String()})
				c06Check(c, "db", *efivar.Db.GUID, 0x27, pls[3], 1, in.In(z), nil)
				c06Check(c, "PK", *efivar.PK.GUID, 0x27, pls[4], 1, in.In(z), nil)
			}
		}
	case unit == "ca-issued":
		// certificates issued by a CA: issuer differs from subject
		for _, k := range []int{1, 4} {
			for pi, pl := range pls {
				if k == 4 && pi%3 != 0 {
					continue
				}
				for _, name := range []string{"db", "KEK", "A"} {
					c06CheckCert(c, name, gA, 0x27, pl, k, keys.Leaf(k), t0, nil)
					c06CheckCert(c, name, gA, 0x67, pl, k, keys.Leaf(k), t0, nil)
				}
			}
		}
		// certificates of every kind (signed with SHA-384/512 or PSS, issued by RSA / ECDSA / Ed25519
		// CAs): none of this may change the SignedData, which is SHA-256 with the signer's RSA key
		// issuer names in forms Go's pkix.Name would not produce (UTF8String, CN first, e-mail address,
		// domain components, multi-valued RDNs): the SignerInfo must carry the issuer byte for byte
		for _, iss := range c05Issuers() {
			ic, ierr := c05Cert(1, iss, big.NewInt(0x5150))
			if ierr != nil {
				continue
			}
			c06CheckCert(c, "db", gA, 0x27, pls[3], 1, ic, t0, nil)
		}
		for _, vc := range keys.Variety(1) {
			for _, pi := range []int{0, 3} {
				c06CheckCert(c, "db", gA, 0x27, pls[pi], 1, vc, t0, nil)
				c06CheckCert(c, "A", gA, 0x67, pls[pi], 1, vc, t0, nil)
			}
		}
	case unit == "stepping-clock":
		// a clock that moves between two readings inside one call (slow signer, second boundary)
		c06Stepping = true
		defer func() { c06Stepping = false }()
		for _, name := range []string{"db", "PK", "A"} {
			for _, pl := range pls {
				c06Check(c, name, gA, 0x27, pl, 1, time.Date(2023, 12, 31, 23, 59, 58, 0, time.UTC), nil)
				c06CheckCert(c, name, gA, 0x67, pl, 1, keys.Leaf(1), t0, nil)
			}
		}
	case unit == "openssl":
		if !ossl.Available() {
			c.Note("openssl not installed")
			return
		}
		sess, err := ossl.New()
		if err != nil {
			return
		}
		defer sess.Close()
		for ni, name := range []string{"PK", "KEK", "db", "dbx", "A", "~"} {
			for pi, pl := range pls {
				if !thorough && (ni+pi)%2 != 0 {
					continue
				}
				c.Tick()
				c06Check(c, name, gA, 0x27, pl, 1, t0, sess)
			}
		}
	}
}
