//go:build !verifsched

package props

import (
	"bytes"
	"encoding/binary"
	"fmt"
	"io"
	"runtime/debug"
	"strconv"
	"strings"
	"testing/fstest"
	"testing/iotest"
	"time"

	"github.com/foxboron/go-uefi/efi"
	"github.com/foxboron/go-uefi/efi/efitest"
	efifs "github.com/foxboron/go-uefi/efi/fs"
	"github.com/foxboron/go-uefi/efi/signature"
	"github.com/foxboron/go-uefi/efivar"
	"github.com/foxboron/go-uefi/efivarfs/testfs"

	"verif/internal/hx"
	"verif/keys"
	"verif/ref/refesl"
	"verif/shim/vtime"
)

const c08Shards = 32

func init() {
	hx.Register(&hx.Prop{
		ID:    "C08",
		Level: "exploration",
		Rule: "from every well-formed stream of <=2 lists (C07 shapes): every truncation point; every value of a boundary alphabet in each of the three size fields of each list, and every pair of fields (deviation bound 2); " +
			"each type GUID replaced by every signature-scheme GUID the decoder does not handle and by an unknown GUID; trailing garbage of every length 1..76; lists with a 1 MiB+ entry truncated near every power-of-two boundary and with size fields overstating the data; every derived input also through byte-at-a-time, half-sized and data-with-EOF readers, through SignatureDatabase.Unmarshal (whose source buffer is scribbled over afterwards), and a fiftieth of them as the content of db through Efivarfs.Getdb and the package-level efi.Getdb, which must give the decoder's verdict. Oracle: library returns nil error => the reference decoder accepts the whole input " +
			"and the returned lists equal the reference's. non-trivial = derived input differs from its seed and is rejected by the reference (the library must report an error); distinct = distinct input bytes",
		Assumptions: []string{"reference decoder refesl applies exactly the statement's rule", "a zero-entry list whose SignatureSize is below 16 is not judged (size equation holds, 'at least 16' does not; the library's own NewSignatureList produces it)"},
		Units: func(tier string) []string {
			var u []string
			for i := 0; i < c08Shards; i++ {
				u = append(u, "mut#"+strconv.Itoa(i))
			}
			if tier == "thorough" {
				u = append(u, "beyond-4GiB")
			}
			return append(u, "large-entry", "stored-update")
		},
		Run: c08Run,
		MemKBUnit: func(unit string) int {
			if unit == "beyond-4GiB" {
				return 24 << 20 // 24 GiB of address space: the decoder keeps everything it reads
			}
			return 0
		},
		Bound: func(tier string) map[string]any {
			me, pairs := c08Bound(tier)
			return map[string]any{"seed_max_lists": 2, "seed_max_entries": me, "field_alphabet": "0,1,15,16,17,27,28,29,31,32,44,47,48,49,75,76,77,exact+-1,remaining+-1,2^31-1,2^31,2^32-1", "pairs": pairs}
		},
		Budget: dur(3*time.Minute, 25*time.Minute),
	})
}

func c08Bound(tier string) (maxEntries int, pairs bool) {
	if tier == "thorough" {
		return 2, true
	}
	return 1, true
}

// c08Judge applies the oracle to one candidate input.
// c08ForceTwins: judge every input through the accessors too (set by units whose inputs are aimed at them)
var c08ForceTwins bool

func c08Judge(c *hx.Ctx, in []byte, class string, seed []byte) {
	want, amb, rerr := refesl.Decode(in)
	var db signature.SignatureDatabase
	var err error
	var uerr error
	var udb signature.SignatureDatabase
	readerDep := false
	aliased := false
	twin := ""
	if p := hx.Try(func() {
		db, err = signature.ReadSignatureDatabase(bytes.NewReader(in))
		// the entry point the efivarfs accessors use
		store := append([]byte{}, in...)
		uerr = udb.Unmarshal(bytes.NewBuffer(store))
		if uerr == nil {
			// what was decoded stays what it is when the caller reuses the buffer's storage
			before := append([]byte{}, udb.Bytes()...)
			for i := range store {
				store[i] ^= 0xa5
			}
			if !bytes.Equal(before, udb.Bytes()) {
				aliased = true
			}
			var again signature.SignatureDatabase
			if again.Unmarshal(bytes.NewBuffer(append([]byte{}, in...))) == nil {
				udb = again
			}
		}
		// the same bytes as the value of db through the other accessors: the Efivarfs typed accessor
		// and the package-level twin must give the verdict the decoder gives
		if c.Index()%50 == 0 || c08ForceTwins {
			file := fstest.MapFS{efivarsDir + "db-" + refFormat(*efivar.Db.GUID): &fstest.MapFile{Data: append([]byte{0x27, 0, 0, 0}, in...)}}
			tdb, terr := testfs.NewTestFS().With(file).Open().Getdb()
			efifs.SetFS(efitest.FromMapFS(file))
			ldb, lerr := efi.Getdb()
			switch {
			case (terr == nil) != (err == nil) || (terr == nil && !bytes.Equal(tdb.Bytes(), db.Bytes())):
				twin = "Efivarfs.Getdb"
			case len(in) > 0 && ((lerr == nil) != (err == nil) || (lerr == nil && !bytes.Equal(ldb.Bytes(), db.Bytes()))):
				twin = "package-level efi.Getdb"
			}
		}
		// a reader that hands out its last bytes together with io.EOF, and one that trickles
		if c.Index()%7 == 0 {
			d3, e3 := signature.ReadSignatureDatabase(iotest.DataErrReader(bytes.NewReader(in)))
			d4, e4 := signature.ReadSignatureDatabase(iotest.OneByteReader(bytes.NewReader(in)))
			d5, e5 := signature.ReadSignatureDatabase(PausingReader(bytes.NewReader(in)))
			if (e3 == nil) != (err == nil) || (e4 == nil) != (err == nil) || (e5 == nil) != (err == nil) || (err == nil && (!bytes.Equal(d3.Bytes(), db.Bytes()) || !bytes.Equal(d4.Bytes(), db.Bytes()) || !bytes.Equal(d5.Bytes(), db.Bytes()))) {
				readerDep = true
			}
		}
	}); p != nil {
		c.Outcome("panic")
		c.Violation("C08 decoding ends in "+p.String()+" for "+class, map[string]any{"input": hx8(in), "class": class, "stack": p.Stack})
		return
	}
	if rerr != nil && !bytes.Equal(in, seed) {
		c.Nontrivial(in)
	}
	if aliased {
		c.Outcome("aliases-input")
		c.Violation("C08 the decoded database changes when the caller reuses the buffer it was decoded from ("+class+")", map[string]any{"input": hx8(in), "class": class})
		return
	}
	if twin != "" {
		c.Outcome("accessors-disagree")
		c.Violation("C08 "+twin+" gives another verdict or other lists than ReadSignatureDatabase for the same variable content ("+class+")", map[string]any{"input": hx8(in), "class": class, "decoder_error": fmt.Sprint(err)})
		return
	}
	if readerDep {
		c.Outcome("verdict-depends-on-read-portions")
		c.Violation("C08 the accept/reject verdict or the decoded lists depend on how the reader portions the data ("+class+")", map[string]any{"input": hx8(in), "class": class})
		return
	}
	if (err == nil) != (uerr == nil) || (err == nil && !bytes.Equal(db.Bytes(), udb.Bytes())) {
		c.Outcome("entry-points-disagree")
		if uerr == nil {
			// judge what Unmarshal accepted
			db, err = udb, nil
			class += ", through SignatureDatabase.Unmarshal"
		}
	}
	if err != nil {
		if rerr != nil {
			c.Outcome("both-reject")
		} else {
			c.Outcome("library-rejects-wellformed(not judged here)")
		}
		return
	}
	if amb {
		c.Outcome("accepted-ambiguous-zero-entry-list(not judged)")
		return
	}
	if rerr != nil {
		c.Outcome("silently-accepted")
		got := libToRef(db)
		c.Violation(fmt.Sprintf("C08 malformed input (%s) accepted with nil error", class),
			map[string]any{"input": hx8(in), "class": class, "reference_error": rerr.Error(), "library_returned": describeLists(got), "seed": hx8(seed)})
		return
	}
	got := libToRef(db)
	if ok, why := listsEqual(got, want); !ok {
		c.Outcome("misread")
		c.Violation(fmt.Sprintf("C08 input (%s) decoded differently from the specification layout", class),
			map[string]any{"input": hx8(in), "class": class, "difference": why, "library_returned": describeLists(got), "reference": describeLists(want)})
		return
	}
	c.Outcome("both-accept-equal")
}

func c08Alphabet(exact, remaining uint32) []uint32 {
	vals := []uint32{0, 1, 15, 16, 17, 27, 28, 29, 31, 32, 44, 47, 48, 49, 75, 76, 77,
		exact - 1, exact + 1, remaining - 1, remaining + 1, 1<<31 - 1, 1 << 31, 1<<32 - 1}
	seen := map[uint32]bool{exact: true}
	var out []uint32
	for _, v := range vals {
		if !seen[v] {
			seen[v] = true
			out = append(out, v)
		}
	}
	return out
}

var c08OtherTypes = func() []refesl.GUID {
	var out []refesl.GUID
	for g := range signature.ValidEFISignatureSchemes {
		w := wire(g)
		if w != refesl.X509 && w != refesl.SHA256 && w != refesl.EXTMGT {
			out = append(out, w)
		}
	}
	// deterministic order
	for i := range out {
		for j := i + 1; j < len(out); j++ {
			if bytes.Compare(out[j][:], out[i][:]) < 0 {
				out[i], out[j] = out[j], out[i]
			}
		}
	}
	out = append(out, refesl.MkGUID(0xdeadbeef, 0x1234, 0x5678, [8]byte{1, 2, 3, 4, 5, 6, 7, 8}))
	// near misses of the supported types: the same GUID in another byte order (as printed, fully
	// reversed, single fields swapped, last field reversed), nibble-swapped, complemented, off by one
	for _, w := range []refesl.GUID{refesl.X509, refesl.SHA256, refesl.EXTMGT} {
		perm := func(idx ...int) refesl.GUID {
			var g refesl.GUID
			for i, j := range idx {
				g[i] = w[j]
			}
			return g
		}
		cands := []refesl.GUID{
			perm(3, 2, 1, 0, 5, 4, 7, 6, 8, 9, 10, 11, 12, 13, 14, 15),
			perm(15, 14, 13, 12, 11, 10, 9, 8, 7, 6, 5, 4, 3, 2, 1, 0),
			perm(3, 2, 1, 0, 4, 5, 6, 7, 8, 9, 10, 11, 12, 13, 14, 15),
			perm(0, 1, 2, 3, 5, 4, 6, 7, 8, 9, 10, 11, 12, 13, 14, 15),
			perm(0, 1, 2, 3, 4, 5, 7, 6, 8, 9, 10, 11, 12, 13, 14, 15),
			perm(0, 1, 2, 3, 4, 5, 6, 7, 15, 14, 13, 12, 11, 10, 9, 8),
			perm(3, 2, 1, 0, 5, 4, 7, 6, 15, 14, 13, 12, 11, 10, 9, 8),
			perm(0, 1, 2, 3, 6, 7, 4, 5, 8, 9, 10, 11, 12, 13, 14, 15),
			perm(1, 0, 3, 2, 5, 4, 7, 6, 9, 8, 11, 10, 13, 12, 15, 14),
		}
		var nib, inv, inc, dec refesl.GUID
		for i := range w {
			nib[i] = w[i]<<4 | w[i]>>4
			inv[i] = ^w[i]
		}
		inc, dec = w, w
		inc[0]++
		dec[15]--
		cands = append(cands, nib, inv, inc, dec)
		for _, g := range cands {
			if g != refesl.X509 && g != refesl.SHA256 && g != refesl.EXTMGT {
				out = append(out, g)
			}
		}
	}
	return out
}()

// c08Large: X.509 lists whose single / last entry is larger than a megabyte (firmware dbx files are
// that large as a whole): truncations near every size-class boundary and at the end, size fields
// overstating the data by small and large amounts.
func c08Large(c *hx.Ctx, tier string) {
	for _, n := range []int{1<<20 + 4096, 3 << 19} {
		for _, two := range []bool{false, true} {
			es := []refesl.Entry{{Owner: ownerA, Data: fill(n, 0x3d)}}
			if two {
				es = append([]refesl.Entry{{Owner: ownerB, Data: fill(n, 0x17)}}, es...)
			}
			seed := refesl.Encode([]refesl.List{refesl.Mk(refesl.SHA256, 48, refesl.Entry{Owner: ownerA, Data: fill(32, 1)}), refesl.Mk(refesl.X509, uint32(16+n), es...)})
			c.Tick()
			if c.Next() {
				c08Judge(c, seed, "large entry, untouched", seed)
			}
			for _, cut := range []int{1, 2, 100, 4095, 4096, 4097, 65536, 1 << 19, 1<<20 - 1, 1 << 20, 1<<20 + 1, n - 1} {
				if cut >= len(seed) || !c.Next() {
					continue
				}
				c08Judge(c, seed[:len(seed)-cut], "truncated stream (large entry)", seed)
			}
			off := 76 // second list header
			for _, d := range []uint32{1, 1000, 4096, 1 << 20} {
				for _, fld := range []int{16, 24} {
					if !c.Next() {
						continue
					}
					in := append([]byte{}, seed...)
					v := binary.LittleEndian.Uint32(in[off+fld:]) + d
					if fld == 24 && two {
						v = binary.LittleEndian.Uint32(in[off+fld:]) + d/2 + 1
					}
					binary.LittleEndian.PutUint32(in[off+fld:], v)
					if fld == 24 { // keep ListSize consistent with the enlarged SignatureSize
						binary.LittleEndian.PutUint32(in[off+16:], 28+v*uint32(len(es)))
					}
					c08Judge(c, in, "size field overstating a large entry", seed)
				}
			}
		}
	}
	// a list boundary exactly on every power of two up to 32 MiB (thorough: 64 MiB), reached by one
	// large list, with another list behind it: nothing behind the boundary may be dropped
	top := 25
	if tier == "thorough" {
		top = 26
	}
	for k := 20; k <= top; k++ {
		for _, lead := range []bool{false, true} {
			if !c.Next() {
				continue
			}
			c.Tick()
			total := 1 << k
			small := refesl.Mk(refesl.SHA256, 48, refesl.Entry{Owner: ownerA, Data: fill(32, 7)})
			var ls []refesl.List
			n := total - 28 - 16
			if lead {
				ls = append(ls, small)
				n -= 76
			}
			ls = append(ls, refesl.Mk(refesl.X509, uint32(16+n), refesl.Entry{Owner: ownerB, Data: fill(n, 0x61)}), small, refesl.Mk(refesl.X509, 16+5, refesl.Entry{Owner: ownerA, Data: fill(5, 2)}))
			seed := refesl.Encode(ls)
			c08Judge(c, seed, fmt.Sprintf("well-formed stream with a list boundary at offset 2^%d", k), seed)
			// and the same stream cut right behind the boundary + 1 byte (must be an error)
			if c.Next() {
				c08Judge(c, seed[:total+1], "truncated stream (one byte behind a list boundary at a power of two)", seed)
			}
		}
	}
	c.Sample(map[string]any{"class": "large entry", "entry_bytes": []int{1<<20 + 4096, 3 << 19}, "list_boundaries_at_powers_of_two_up_to": top})
}

// c08Synthetic serves a database that is too large to hold: list headers and entry owners are
// real bytes, entry data is a constant fill.
type c08Synthetic struct {
	segs []c08Seg
	pos  int64
}

type c08Seg struct {
	hdr  []byte // real bytes
	fill int64  // followed by this many 0x6b bytes
}

func (s *c08Synthetic) Read(p []byte) (int, error) {
	off := s.pos
	for _, g := range s.segs {
		total := int64(len(g.hdr)) + g.fill
		if off >= total {
			off -= total
			continue
		}
		n := 0
		if off < int64(len(g.hdr)) {
			n = copy(p, g.hdr[off:])
		} else {
			left := total - off
			n = len(p)
			if int64(n) > left {
				n = int(left)
			}
			for i := 0; i < n; i++ {
				p[i] = 0x6b
			}
		}
		s.pos += int64(n)
		return n, nil
	}
	return 0, io.EOF
}

// c08Beyond4G: a single list is limited to 32 bits, a database is not. Two X.509 lists whose
// combined length is 2^32-1, 2^32 and 2^32+1 bytes, followed by a SHA-256 list: all three lists
// must come back (or an error), never a shorter database.
func c08Beyond4G(c *hx.Ctx) {
	for _, total := range []int64{1<<32 - 1, 1 << 32, 1<<32 + 1} {
		if !c.Next() {
			continue
		}
		c.Tick()
		l1 := int64(1<<31 + 12345)
		l2 := total - l1
		mkHdr := func(l int64, owner refesl.GUID) []byte {
			b := append([]byte{}, refesl.X509[:]...)
			b = binary.LittleEndian.AppendUint32(b, uint32(l))
			b = binary.LittleEndian.AppendUint32(b, 0)
			b = binary.LittleEndian.AppendUint32(b, uint32(l-28))
			return append(b, owner[:]...)
		}
		tail := refesl.Encode([]refesl.List{refesl.Mk(refesl.SHA256, 48, refesl.Entry{Owner: ownerA, Data: fill(32, 9)})})
		src := &c08Synthetic{segs: []c08Seg{{mkHdr(l1, ownerA), l1 - 44}, {mkHdr(l2, ownerB), l2 - 44}, {tail, 0}}}
		var db signature.SignatureDatabase
		var err error
		pn := hx.Try(func() { db, err = signature.ReadSignatureDatabase(src) })
		c.Tick()
		d := map[string]any{"first_two_lists_bytes": total, "error": fmt.Sprint(err)}
		switch {
		case pn != nil:
			c.Outcome("panic")
			c.Violation("C08 decoding ends in "+pn.String()+" for a database larger than 4 GiB", d)
		case err != nil:
			c.Outcome("library-rejects-wellformed(not judged here)")
		case len(db) != 3 || len(db[0].Signatures) != 1 || int64(len(db[0].Signatures[0].Data)) != l1-44 || len(db[1].Signatures) != 1 || int64(len(db[1].Signatures[0].Data)) != l2-44 ||
			len(db[2].Signatures) != 1 || !bytes.Equal(db[2].Signatures[0].Data, fill(32, 9)):
			c.Outcome("misread")
			d["lists_returned"] = len(db)
			c.Violation("C08 input (well-formed database larger than 4 GiB with a list boundary at 2^32 or next to it) decoded to a shorter or different database with nil error", d)
		default:
			c.Outcome("both-accept-equal")
			c.Nontrivial([]byte(fmt.Sprint("beyond4g", total)))
		}
		db = nil
		debug.FreeOSMemory()
	}
}

func c08Run(c *hx.Ctx, tier, unit string) {
	if unit == "beyond-4GiB" {
		c08Beyond4G(c)
		return
	}
	if unit == "large-entry" {
		c08Large(c, tier)
		return
	}
	if unit == "stored-update" {
		c08StoredUpdate(c)
		return
	}
	shard, _ := strconv.Atoi(strings.TrimPrefix(unit, "mut#"))
	me, pairs := c08Bound(tier)
	shapes := listShapes(me)
	forStreams(shapes, 2, shard, c08Shards, func(ls []refesl.List) bool {
		seed := refesl.Encode(ls)
		shape := describeLists(ls)
		do := func(in []byte, class string) {
			c.Label(strings.ReplaceAll(class, " ", "-") + " seed=" + shape)
			if !c.Next() {
				return
			}
			if c.Index()%400000 == 1 {
				c.Sample(map[string]any{"class": class, "seed_shape": describeLists(ls), "input": hx8(in)})
			}
			c08Judge(c, in, class, seed)
		}
		// (a) every truncation point
		for n := 0; n < len(seed); n++ {
			do(seed[:n], "truncated stream")
		}
		// field offsets
		type field struct {
			off    int
			name   string
			exact  uint32
			remain uint32
		}
		var fields []field
		off := 0
		for _, l := range ls {
			rem := uint32(len(seed) - off)
			fields = append(fields,
				field{off + 16, "ListSize", l.ListSize, rem},
				field{off + 20, "HeaderSize", l.HeaderSize, rem},
				field{off + 24, "SignatureSize", l.SigSize, rem})
			off += int(l.ListSize)
		}
		// (b) single field deviations and pairs
		for i, f := range fields {
			for _, v := range c08Alphabet(f.exact, f.remain) {
				in := append([]byte{}, seed...)
				binary.LittleEndian.PutUint32(in[f.off:], v)
				do(in, "size field "+f.name)
				if !pairs {
					continue
				}
				for j := i + 1; j < len(fields); j++ {
					g := fields[j]
					for _, w := range c08Alphabet(g.exact, g.remain) {
						in2 := append([]byte{}, in...)
						binary.LittleEndian.PutUint32(in2[g.off:], w)
						do(in2, "size fields "+f.name+"+"+g.name)
					}
				}
			}
		}
		// (c) unsupported signature types
		off = 0
		for _, l := range ls {
			for _, g := range c08OtherTypes {
				in := append([]byte{}, seed...)
				copy(in[off:], g[:])
				do(in, "unsupported signature type")
			}
			off += int(l.ListSize)
		}
		// (d) trailing garbage
		for n := 1; n <= 76; n++ {
			for _, pat := range []byte{0x00, 0xff} {
				in := append(append([]byte{}, seed...), bytes.Repeat([]byte{pat}, n)...)
				do(in, "trailing garbage")
			}
			in := append(append([]byte{}, seed...), fill(n, 0x5a)...)
			do(in, "trailing garbage")
		}
		return !c.Expired()
	})
}

// c08StoredUpdate: variable content that begins with an authentication descriptor (what is WRITTEN
// for a signed update: EFI_VARIABLE_AUTHENTICATION_2 + new value) is not a sequence of signature
// lists: the first 16 bytes are a timestamp, not a supported type. Decoder and every accessor must
// reject it, for genuine signed updates of several payloads, for descriptors standing alone, doubled,
// with every truncation of the descriptor part, and for lists whose HeaderSize field holds the
// descriptor's revision/type words (0x0EF10200).
func c08StoredUpdate(c *hx.Ctx) {
	c08ForceTwins = true
	vtime.Set(time.Date(2024, 5, 6, 7, 8, 9, 0, time.UTC))
	payloads := [][]refesl.List{
		nil,
		{refesl.Mk(refesl.SHA256, 48, refesl.Entry{Owner: ownerA, Data: fill(32, 1)})},
		{refesl.Mk(refesl.SHA256, 48, refesl.Entry{Owner: ownerA, Data: fill(32, 1)}, refesl.Entry{Owner: ownerB, Data: fill(32, 2)}), refesl.Mk(refesl.X509, uint32(16+len(keys.C(1).Raw)), refesl.Entry{Owner: ownerB, Data: keys.C(1).Raw})},
	}
	for pi, pl := range payloads {
		enc := refesl.Encode(pl)
		var ldb signature.SignatureDatabase
		if len(enc) > 0 {
			var err error
			if ldb, err = signature.ReadSignatureDatabase(bytes.NewReader(enc)); err != nil {
				c.Note("payload %d does not decode: %v", pi, err)
				continue
			}
		}
		_, su, err := signature.SignEFIVariable(efivar.Db, &ldb, memoSignerFor(1), keys.C(1))
		if err != nil {
			c.Note("SignEFIVariable: %v", err)
			continue
		}
		blob := append([]byte{}, su.Bytes()...)
		desc := blob[:len(blob)-len(enc)]
		do := func(in []byte, class string) {
			if !c.Next() {
				return
			}
			c08Judge(c, in, class, enc)
		}
		do(blob, "signed update (authentication descriptor + lists) stored as the variable content")
		do(desc, "authentication descriptor alone as the variable content")
		do(append(append([]byte{}, desc...), blob...), "two authentication descriptors, then lists")
		do(append(append([]byte{}, enc...), blob...), "lists, then a signed update")
		for n := 1; n < len(desc); n += 1 + len(desc)/64 {
			do(append(append([]byte{}, desc[:n]...), enc...), "truncated authentication descriptor, then lists")
		}
		// the descriptor with other timestamps (zero, all fields at their maximum)
		for _, ts := range [][]byte{make([]byte, 16), {0x0f, 0x27, 12, 31, 23, 59, 59, 0, 0, 0, 0, 0, 0, 0, 0, 0}} {
			in := append([]byte{}, blob...)
			copy(in, ts)
			do(in, "signed update with another timestamp stored as the variable content")
		}
		// lists whose HeaderSize is the descriptor's wRevision/wCertificateType words
		if len(enc) > 0 {
			in := append([]byte{}, enc...)
			binary.LittleEndian.PutUint32(in[20:], 0x0EF10200)
			do(in, "size field HeaderSize")
			in2 := append(append([]byte{}, in...), blob...)
			do(in2, "size field HeaderSize")
		}
	}
}
