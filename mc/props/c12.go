//go:build !verifsched

package props

import (
	"bytes"
	"crypto"
	"crypto/rsa"
	"fmt"
	"io"
	"sort"
	"strings"
	"sync"
	"testing/fstest"
	"time"

	"github.com/foxboron/go-uefi/efi/attributes"
	"github.com/foxboron/go-uefi/efi/signature"
	"github.com/foxboron/go-uefi/efivar"
	"github.com/foxboron/go-uefi/efivarfs"
	"github.com/foxboron/go-uefi/efivarfs/testfs"

	"verif/internal/hx"
	"verif/keys"
	"verif/ref/refauth"
	"verif/ref/refesl"
	"verif/shim/vtime"
)

// memoSigner wraps an RSA key and memoises PKCS#1 v1.5 signatures (which are
// deterministic), so that replaying a history does not pay for RSA again.
type memoSigner struct {
	k  *rsa.PrivateKey
	mu sync.Mutex
	m  map[string][]byte
}

func (s *memoSigner) Public() crypto.PublicKey { return s.k.Public() }
func (s *memoSigner) Sign(r io.Reader, digest []byte, opts crypto.SignerOpts) ([]byte, error) {
	s.mu.Lock()
	defer s.mu.Unlock()
	if sig, ok := s.m[string(digest)]; ok {
		return sig, nil
	}
	sig, err := s.k.Sign(r, digest, opts)
	if err == nil {
		s.m[string(digest)] = sig
	}
	return sig, err
}

var memoK1 = &memoSigner{k: nil, m: map[string][]byte{}}

func signerK1() crypto.Signer {
	if memoK1.k == nil {
		memoK1.k = keys.K(1)
	}
	return memoK1
}

type c12Var struct {
	v     efivar.Efivar
	isDB  bool
	typed func(*efivarfs.Efivarfs) (*signature.SignatureDatabase, error)
}

type c12Val struct {
	name string
	enc  []byte
}

func c12Vars(tier string) []c12Var {
	all := []c12Var{
		{efivar.Db, true, (*efivarfs.Efivarfs).Getdb},
		{efivar.PK, true, (*efivarfs.Efivarfs).GetPK},
		{efivar.LoaderConfigTimeout, false, nil},
		// a predefined variable whose mask has RUNTIME_ACCESS without BOOTSERVICE_ACCESS (the *Default
		// variables): a store may refuse such a write; the register then keeps its value
		{efivar.PKDefault, false, nil},
		{efivar.KEK, true, (*efivarfs.Efivarfs).GetKEK},
		{efivar.Dbx, true, (*efivarfs.Efivarfs).Getdbx},
	}
	if tier == "thorough" {
		return all
	}
	return all[:4]
}

func c12DBVals() []c12Val {
	e := func(o refesl.GUID, p byte) refesl.Entry { return refesl.Entry{Owner: o, Data: fill(32, p)} }
	return []c12Val{
		{"empty-db", nil},
		{"1-entry-db", refesl.Encode([]refesl.List{refesl.Mk(refesl.SHA256, 48, e(ownerA, 1))})},
		{"3-entry-db", refesl.Encode([]refesl.List{refesl.Mk(refesl.SHA256, 48, e(ownerA, 1), e(ownerB, 2), e(ownerA, 3))})},
		{"2-list-db", refesl.Encode([]refesl.List{refesl.Mk(refesl.X509, 16+40, refesl.Entry{Owner: ownerB, Data: fill(40, 7)}), refesl.Mk(refesl.SHA256, 48, e(ownerB, 9))})},
		// legal databases a decoder might "tidy up": the same list twice (two key sets sharing a CA), an
		// entry twice, and a list left without entries (what removing the last entry of a list leaves)
		{"repeats-db", refesl.Encode([]refesl.List{refesl.Mk(refesl.SHA256, 48, e(ownerA, 1), e(ownerA, 1)), refesl.Mk(refesl.X509, 16+40, refesl.Entry{Owner: ownerB, Data: fill(40, 7)}),
			refesl.Mk(refesl.X509, 0), refesl.Mk(refesl.X509, 16+40, refesl.Entry{Owner: ownerB, Data: fill(40, 7)})})},
	}
}

func c12RawVals() []c12Val {
	return []c12Val{{"raw-0", nil}, {"raw-1", []byte{0x41}}, {"raw-5", fill(5, 0x30)}, {"raw-40", fill(40, 0x61)}, {"raw-600", fill(600, 0x62)}, {"raw-40000", fill(40000, 0x63)}}
}

type c12Op struct {
	name   string
	vi     int
	val    c12Val
	signed bool
	extra  attributes.Attributes // attribute bits the writer's definition has beyond the stock one
	reuse  bool                  // one signed-update object (SignEFIVariable) written twice with WriteVar
	// ownGUID: the caller names the variable with a definition of its own (same name, GUID value and
	// attributes as the predefined one, but not the predefined value's GUID pointer)
	ownGUID bool
}

func c12Ops(tier string) []c12Op {
	var ops []c12Op
	for vi, v := range c12Vars(tier) {
		vals := c12RawVals()
		if v.isDB {
			vals = c12DBVals()
		}
		for _, val := range vals {
			ops = append(ops, c12Op{name: fmt.Sprintf("WriteVar(%s,%s)", v.v.Name, val.name), vi: vi, val: val})
		}
		if v.isDB {
			for _, val := range vals {
				ops = append(ops, c12Op{name: fmt.Sprintf("WriteSignedUpdate(%s,%s)", v.v.Name, val.name), vi: vi, val: val, signed: true})
			}
		}
		if v.isDB && vi <= 1 {
			for _, val := range []c12Val{vals[1], vals[3]} {
				ops = append(ops, c12Op{name: fmt.Sprintf("WriteSignedUpdate(%s named by a definition the caller built itself,%s)", v.v.Name, val.name), vi: vi, val: val, signed: true, ownGUID: true})
			}
		}
		if vi == 0 {
			for _, val := range []c12Val{vals[1], vals[2]} {
				ops = append(ops, c12Op{name: fmt.Sprintf("WriteVar twice with one SignEFIVariable object (%s,%s)", v.v.Name, val.name), vi: vi, val: val, signed: true, reuse: true})
			}
		}
		// the same variable addressed through a definition carrying more attribute bits than the
		// stock one (update tools write dbx with APPEND_WRITE; dumps carry NON_VOLATILE): readers use
		// the stock definition, which asks for a subset of what is stored
		if vi == 0 || !v.isDB {
			for _, x := range []attributes.Attributes{attributes.EFI_VARIABLE_APPEND_WRITE, attributes.EFI_VARIABLE_NON_VOLATILE} {
				if v.v.Attributes&x != 0 {
					continue
				}
				for _, val := range []c12Val{vals[1], vals[2]} {
					ops = append(ops, c12Op{name: fmt.Sprintf("WriteVar(%s|0x%x,%s)", v.v.Name, uint32(x), val.name), vi: vi, val: val, extra: x})
					if v.isDB {
						ops = append(ops, c12Op{name: fmt.Sprintf("WriteSignedUpdate(%s|0x%x,%s)", v.v.Name, uint32(x), val.name), vi: vi, val: val, signed: true, extra: x})
					}
				}
			}
		}
	}
	return ops
}

// c12Marshallable hands the value to the store as bytes: the harness does not run the value
// through the library's decoder first (a decoder that alters or rejects it would hide the case).
func c12Marshallable(v c12Var, val c12Val) efivar.Marshallable {
	return rawval(val.enc)
}

func c12Path(v efivar.Efivar) string {
	return efivarsDir + v.Name + "-" + refFormat(*v.GUID)
}

type c12World struct {
	tfs *testfs.TestFS
	e   *efivarfs.Efivarfs
}

func c12New(prepopulated bool) *c12World {
	t := testfs.NewTestFS()
	if prepopulated {
		t = t.With(fstest.MapFS{c12Path(efivar.Db): &fstest.MapFile{Data: append([]byte{0x27, 0, 0, 0}, c12DBVals()[2].enc...)}})
		// an ordinary variable as a dump has it: one attribute bit more than the stock definition
		t = t.With(fstest.MapFS{c12Path(efivar.LoaderConfigTimeout): &fstest.MapFile{Data: append([]byte{0x07, 0, 0, 0}, c12PreRaw...)}})
	}
	return &c12World{t, t.Open()}
}

var c12PreRaw = []byte("pre-populated value")

func (w *c12World) apply(vars []c12Var, op c12Op) error {
	v := vars[op.vi]
	m := c12Marshallable(v, op.val)
	def := v.v
	def.Attributes |= op.extra
	if op.ownGUID {
		g := *def.GUID
		def.GUID = &g
	}
	if op.reuse {
		_, su, err := signature.SignEFIVariable(def, m, signerK1(), keys.C(1))
		if err != nil {
			return err
		}
		if err := w.e.WriteVar(def, su); err != nil {
			return err
		}
		return w.e.WriteVar(def, su)
	}
	if op.signed {
		return w.e.WriteSignedUpdate(def, m, signerK1(), keys.C(1))
	}
	return w.e.WriteVar(def, m)
}

// key dumps the complete content of the store for the variables of the alphabet.
func (w *c12World) key(vars []c12Var) string {
	var sb strings.Builder
	for _, v := range vars {
		b, err := w.tfs.ReadFile(c12Path(v.v))
		if err != nil {
			fmt.Fprintf(&sb, "%s:absent|", v.v.Name)
		} else {
			fmt.Fprintf(&sb, "%s:%x|", v.v.Name, b)
		}
	}
	return sb.String()
}

func init() {
	hx.Register(&hx.Prop{
		ID:    "C12",
		Level: "model_checking",
		Rule: "explicit-state search over write histories on the real in-memory store (testfs): alphabet = WriteVar / WriteSignedUpdate x {db, PK, ordinary variable (quick); + KEK, dbx (thorough)} x values ordered by size {empty, 1-entry, 3-entry, 2-list database; raw 0/1/5/40/600/40000 bytes}, " +
			"plus writes of db and of the ordinary variable through definitions carrying an extra attribute bit (APPEND_WRITE, NON_VOLATILE) read back through the stock definitions, from an empty and a pre-populated store (db as a dump has it, an ordinary variable stored with one attribute bit more than its definition); a state is the complete content of the store, reached by replay on a fresh instance, deduplicated exactly; the search runs to the depth bound or to the fixpoint. Every history is also run with every variable read after every write (each intermediate state judged, identical final store content); date units: the same search two operations deep with the clock at 20 other instants. In every state every variable is read back (raw reader, typed accessor) and compared with the reference register model (value of the most recent write, descriptor removed for signed secure-boot writes; never-written => error)",
		Assumptions: []string{"frozen clock (vtime) and memoised deterministic PKCS#1 v1.5 signatures make replays byte-identical", "register model: map variable -> last written value"},
		Units: func(tier string) []string {
			u := []string{"empty-store", "prepopulated-store"}
			// the same search (two operations deep) with the clock at other instants: signed updates carry
			// the current time, and nothing about a date may change what is stored
			for _, d := range c12Dates {
				u = append(u, "empty-store@"+d)
			}
			return u
		},
		Run:        c12Run,
		SearchUnit: func(unit string) bool { return true },
		Bound: func(tier string) map[string]any {
			return map[string]any{"operations": len(c12Ops(tier)), "depth": c12Depth(tier), "variables": len(c12Vars(tier))}
		},
		Budget: dur(4*time.Minute, 30*time.Minute),
	})
}

// c12Dates: leap days, month and year ends, the days after them, the epoch of an unset clock, the
// 32-bit rollover, the last representable second, an instant with nanoseconds.
var c12Dates = []string{"2024-02-29T12:00:00", "2024-03-30T01:02:03", "2024-03-31T23:59:59", "2024-03-01T00:00:00", "2023-02-28T23:59:59", "2000-02-29T00:00:00", "2100-02-28T12:00:00",
	"2100-03-01T00:00:00", "2023-12-31T23:59:59", "2025-01-01T00:00:00", "2049-12-31T23:59:59", "2050-01-01T00:00:00", "1970-01-01T00:00:00", "2038-01-19T03:14:08", "9999-12-31T23:59:59", "2024-06-30T12:30:30.987654321",
	"2024-04-30T10:00:00", "2024-01-31T10:00:00", "2028-02-29T10:00:00", "2026-10-01T10:00:00"}

func c12Depth(tier string) int {
	if tier == "thorough" {
		return 6
	}
	return 4
}

func c12Run(c *hx.Ctx, tier, unit string) {
	c.NoOnly = true
	vtime.Set(time.Date(2024, 5, 6, 7, 8, 9, 0, time.UTC))
	vars := c12Vars(tier)
	ops := c12Ops(tier)
	prepop := unit == "prepopulated-store"
	depth := c12Depth(tier)
	if i := strings.Index(unit, "@"); i >= 0 {
		t, err := time.Parse("2006-01-02T15:04:05.999999999", unit[i+1:])
		if err != nil {
			panic(err)
		}
		vtime.Set(t)
		depth = 2
	}

	type node struct {
		path  []int
		model map[int][]byte // variable index -> last written value (nil entry = written empty)
	}
	histNames := func(path []int) []string {
		h := []string{"store: " + unit}
		for _, oi := range path {
			h = append(h, ops[oi].name)
		}
		return h
	}
	// judge reads in the state reached by path
	judge := func(w *c12World, nd node) (string, map[string]any) {
		for vi, v := range vars {
			want, written := nd.model[vi]
			var s spy
			var err error
			if p := hx.Try(func() { err = w.e.GetVar(v.v, &s) }); p != nil {
				return fmt.Sprintf("reading %s ends in %s", v.v.Name, p.String()), nil
			}
			if !written {
				if err == nil {
					return fmt.Sprintf("reading never-written %s succeeds", v.v.Name), nil
				}
				continue
			}
			if err != nil {
				return fmt.Sprintf("reading %s fails after it was written", v.v.Name), map[string]any{"error": err.Error()}
			}
			if !bytes.Equal(s.got, want) {
				what := "is not the most recent value written"
				if len(s.got) > len(want) && bytes.HasPrefix(s.got, want) {
					what = "returns the most recent value followed by the tail of an earlier, longer value"
				} else if _, n, perr := refauth.ParseAuth2(s.got); perr == nil && bytes.Equal(s.got[n:], want) {
					what = "returns the value with the authentication descriptor still attached"
				}
				return fmt.Sprintf("reading %s %s", v.v.Name, what), map[string]any{"read": hx8(s.got), "model": hx8(want)}
			}
			if v.isDB {
				var db *signature.SignatureDatabase
				if p := hx.Try(func() { db, err = v.typed(w.e) }); p != nil {
					return fmt.Sprintf("typed accessor for %s ends in %s", v.v.Name, p.String()), nil
				}
				if err != nil {
					return fmt.Sprintf("typed accessor for %s fails after it was written", v.v.Name), map[string]any{"error": err.Error()}
				}
				wantLists, _, _ := refesl.Decode(want)
				if ok, why := listsEqual(libToRef(*db), wantLists); !ok {
					return fmt.Sprintf("typed accessor for %s returns another database than the one written last", v.v.Name), map[string]any{"difference": why}
				}
			}
		}
		return "", nil
	}

	initModel := map[int][]byte{}
	if prepop {
		initModel[0] = c12DBVals()[2].enc
		initModel[2] = c12PreRaw
	}
	seen := map[string]bool{}
	w0 := c12New(prepop)
	seen[w0.key(vars)] = true
	c.Count("states", 1)
	if v, d := judge(w0, node{nil, initModel}); v != "" {
		c.Violation("C12 "+v, map[string]any{"history": histNames(nil), "detail": d})
	}
	frontier := []node{{nil, initModel}}
	maxDepth := 0
	for level := 0; level < depth && len(frontier) > 0; level++ {
		var next []node
		for _, nd := range frontier {
			if c.Expired() {
				return
			}
			for oi, op := range ops {
				c.Next()
				w := c12New(prepop)
				var err error
				var pn *hx.Panic
				for _, pi := range nd.path {
					w.apply(vars, ops[pi])
				}
				pn = hx.Try(func() { err = w.apply(vars, op) })
				c.Count("transitions", 1)
				c.Count("traces", 1)
				path := append(append([]int{}, nd.path...), oi)
				if pn != nil {
					c.Outcome("write-terminates")
					c.Violation(fmt.Sprintf("C12 %s ends in %s", opClass(op), pn.String()), map[string]any{"history": histNames(path)})
					continue
				}
				refused := err != nil && vars[op.vi].v.Attributes&attributes.EFI_VARIABLE_BOOTSERVICE_ACCESS == 0
				if err != nil && !refused {
					c.Outcome("write-error")
					c.Violation(fmt.Sprintf("C12 %s fails on the in-memory store", opClass(op)), map[string]any{"history": histNames(path), "error": err.Error()})
					continue
				}
				model := map[int][]byte{}
				for k, v := range nd.model {
					model[k] = v
				}
				val := op.val.enc
				if val == nil {
					val = []byte{}
				}
				if refused {
					// a write with RUNTIME_ACCESS but without BOOTSERVICE_ACCESS may be refused (the
					// specification does not allow that mask): a refused write is no write, the register
					// keeps what it held
					c.Outcome("write-refused(mask without BOOTSERVICE_ACCESS)")
				} else {
					model[op.vi] = val
				}
				nn := node{path, model}
				if v, d := judge(w, nn); v != "" {
					c.Outcome("read-violation")
					c.Violation("C12 "+v+" (after "+opClass(op)+")", map[string]any{"history": histNames(path), "detail": d})
					continue
				}
				// the same history with every variable read (raw reader and typed accessor) after every
				// write: reads leave nothing behind in the store, each intermediate state reads back right
				// and the store ends up byte-identical
				{
					wo := c12New(prepop)
					mo := map[int][]byte{}
					for k, v := range initModel {
						mo[k] = v
					}
					bad := ""
					var bd map[string]any
					for i, pi := range path {
						if pn := hx.Try(func() { wo.apply(vars, ops[pi]) }); pn != nil {
							bad = "a write ends in " + pn.String()
							break
						}
						val := ops[pi].val.enc
						if val == nil {
							val = []byte{}
						}
						mo[ops[pi].vi] = val
						if v, d := judge(wo, node{path[:i+1], mo}); v != "" {
							bad, bd = v, d
							break
						}
					}
					if bad == "" && wo.key(vars) != w.key(vars) {
						bad = "the store's content differs from the content after the same writes without reads in between"
					}
					if bad != "" {
						c.Outcome("read-violation")
						c.Violation("C12 "+bad+" (history with every variable read after every write)", map[string]any{"history": histNames(path), "detail": bd})
						continue
					}
				}
				k := w.key(vars)
				if seen[k] {
					c.Outcome("revisit")
					continue
				}
				seen[k] = true
				c.Count("states", 1)
				c.Nontrivial([]byte(unit), []byte(k))
				c.Outcome("state-ok")
				if len(path) > maxDepth {
					maxDepth = len(path)
				}
				if len(seen)%40 == 2 {
					c.Sample(map[string]any{"history": histNames(path)})
				}
				next = append(next, nn)
			}
		}
		frontier = next
	}
	if len(frontier) == 0 {
		c.Count("fixpoint_reached", 1)
	}
	c.Max("max:depth", uint64(maxDepth))
	_ = sort.Strings
}

func opClass(op c12Op) string {
	k := "WriteVar"
	if op.signed {
		k = "WriteSignedUpdate"
	}
	cls := "ordinary variable"
	if strings.Contains(op.val.name, "db") {
		cls = "secure-boot variable"
	}
	return fmt.Sprintf("%s(%s, %s)", k, cls, op.val.name)
}
