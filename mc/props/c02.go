//go:build !verifsched

package props

import (
	"bytes"
	"crypto/x509"
	"encoding/binary"
	"fmt"
	"io"
	"os"
	"strconv"
	"strings"
	"time"

	"github.com/foxboron/go-uefi/authenticode"

	"verif/gen/pegen"
	"verif/internal/hx"
	"verif/keys"
	"verif/ref/der"
	"verif/ref/refp7"
	"verif/ref/refpe"
	"verif/shim/vtime"
	"verif/weakeq"
)

func init() {
	hx.Register(&hx.Prop{
		ID:    "C02",
		Level: "exploration",
		Rule: "base images: 6 synthetic layouts (both formats, out-of-order sections, gaps, trailing data, every interesting size mod 8) + the repository's test.pecoff; each signed by the library with RSA-2048 and RSA-4096 keys. " +
			"adversarial families: (a) every single-byte change of the signed file (XOR 0xFF; thorough also 0x01, 0x80); (b) every ordered pair of images: certificate table transplanted onto the other image with a consistent directory entry; " +
			"(c) structural rewrites of the embedded PKCS#7 blob (the C04 catalogue, re-embedded with correct lengths) plus the targeted forgeries: image byte changed and embedded digest replaced by the new image digest, with and without a matching messageDigest attribute, " +
			"signature made by another key (also naming the original certificate); (d) each result verified against {signer's certificate, another certificate, same issuer+serial with another key}. " +
			"oracle: Parse(x).Verify(cert) == (true,nil) => an independent reader finds a WIN_CERTIFICATE whose SignedData is valid for cert (refp7) and whose SpcIndirectDataContent digest is the specification digest of exactly x; untampered files verify. " +
			"non-trivial = the library reached signature evaluation (parsed the image and a signature) or returned true; distinct = distinct (file bytes, certificate)",
		Assumptions: []string{"refpe + refp7 as in C01/C04", "RSA/SHA-256 trusted", "panics and exits are counted here and reported under C13"},
		Units:       c02Units,
		Run:         c02Run,
		Budget:      dur(5*time.Minute, 40*time.Minute),
	})
}

const c02ByteShards = 4

func c02Bases() []struct {
	name string
	img  []byte
} {
	var out []struct {
		name string
		img  []byte
	}
	for i, l := range peBaseLayouts() {
		out = append(out, struct {
			name string
			img  []byte
		}{fmt.Sprintf("layout%d", i), pegen.Build(l)})
	}
	out = append(out, struct {
		name string
		img  []byte
	}{"110KB-image", pegen.Build(peBigLayout())})
	out = append(out, struct {
		name string
		img  []byte
	}{"chunk-boundary-image", pegen.Build(peChunkBoundaryLayout())})
	out = append(out, struct {
		name string
		img  []byte
	}{"image-with-64KiB-DOS-stub", pegen.Build(peLongStubLayout())})
	// sections whose VirtualSize is 0 although they have raw data (first and middle of three)
	out = append(out, struct {
		name string
		img  []byte
	}{"zero-VirtualSize-sections-image", pegen.Build(pegen.Layout{PE32Plus: true, Lfanew: 0x40, Secs: []pegen.Sec{{RawSize: 16, VirtZero: true}, {RawSize: 24, VirtZero: true}, {RawSize: 8}}, Trailing: 2})})
	// not well-formed but accepted by the parser: SizeOfHeaders reaches 8 bytes into the first section
	out = append(out, struct {
		name string
		img  []byte
	}{"section-inside-headers-image", pegen.Build(pegen.Layout{PE32Plus: true, Lfanew: 0x40, Secs: []pegen.Sec{{RawSize: 24}, {RawSize: 16}}, Trailing: 13, HdrOver: 8})})
	out = append(out, struct {
		name string
		img  []byte
	}{"flagged-sections-and-hole-image", pegen.Build(pegen.Layout{PE32Plus: true, Lfanew: 0x40, Secs: []pegen.Sec{{RawSize: 16}, {RawSize: 24, Flags: 0xC0000080}, {RawSize: 8, Gap: 40}}, Trailing: 3})})
	if b, err := os.ReadFile("/repo/authenticode/testdata/test.pecoff"); err == nil {
		out = append(out, struct {
			name string
			img  []byte
		}{"test.pecoff", b})
	}
	return out
}

func c02Units(tier string) []string {
	var u []string
	for _, b := range c02Bases() {
		for _, k := range []int{1, 4, 7} {
			if k == 4 && b.name != "layout0" && b.name != "test.pecoff" && tier != "thorough" {
				continue
			}
			if k == 7 { // the e=3 key: structural edits (forgeries without the private key) only
				if b.name == "layout0" {
					u = append(u, fmt.Sprintf("edits#%s#k%d", b.name, k))
				}
				continue
			}
			for s := 0; s < c02ByteShards; s++ {
				u = append(u, fmt.Sprintf("bytes#%s#k%d#%d", b.name, k, s))
			}
			u = append(u, fmt.Sprintf("edits#%s#k%d", b.name, k), fmt.Sprintf("order#%s#k%d", b.name, k))
			if k == 1 {
				u = append(u, fmt.Sprintf("dirrewrite#%s#k%d", b.name, k))
			}
		}
	}
	return append(u, "transplants")
}

// c02Sign signs img with the library.
func c02Sign(img []byte, k int) ([]byte, []byte, error) {
	p, err := authenticode.Parse(bytes.NewReader(img))
	if err != nil {
		return nil, nil, err
	}
	sig, err := p.Sign(memoSignerFor(k), keys.C(k))
	if err != nil {
		return nil, nil, err
	}
	return p.Bytes(), sig, nil
}

// c02SignBlob returns the signature blob the library produces for img with key k.
func c02SignBlob(img []byte, k int) ([]byte, error) {
	_, sig, err := c02Sign(img, k)
	return sig, err
}

type c02Certs struct {
	name string
	c    *x509.Certificate
}

func c02CertSet(k int) []c02Certs {
	other := 2
	// same issuer and serial under keys of another size as well (a larger and a smaller modulus than
	// the signer's where possible): anything keyed on issuer+serial alone, or sized by the certificate
	// at hand, shows here
	others := samePlatesOtherSizes(keys.C(k))
	return []c02Certs{{"signer's certificate", keys.C(k)}, {"another certificate", keys.C(other)}, {"same issuer+serial, other key", samePlate(keys.C(k))},
		{"same issuer+serial, key of another size", others[0]}, {"same issuer+serial, key of a third size", others[1]}}
}

func c02Judge(c *hx.Ctx, x []byte, class string, certs []c02Certs, untouched bool) {
	for ci, cert := range certs {
		if !c.Next() {
			continue
		}
		var ok bool
		var err error
		parsed := false
		pn := hx.Try(func() {
			p, perr := authenticode.Parse(bytes.NewReader(x))
			if perr != nil {
				err = perr
				return
			}
			parsed = true
			ok, err = p.Verify(cert.c)
		})
		if pn != nil {
			c.Outcome("panic/exit(C13)")
			continue
		}
		if parsed {
			c.Nontrivial(x, []byte{byte(ci)})
		}
		if ok && err == nil {
			valid, why := refImageValid(x, cert.c)
			if !valid {
				c.Outcome("accepted-invalid")
				c.Violation(fmt.Sprintf("C02 image verification succeeds although: %s [%s; verified against %s]", why, classKind(class), cert.name),
					map[string]any{"derivation": class, "certificate": cert.name, "file": hx8(x), "reference": why})
				continue
			}
			c.Outcome("accepted-valid")
			continue
		}
		c.Outcome("rejected")
		if untouched && ci == 0 {
			c.Violation("C02 untampered signed image does not verify against the signer's certificate", map[string]any{"file": hx8(x), "error": fmt.Sprint(err)})
		}
	}
}

// c02Embed puts blob into the (stripped) image as its only signature.
func c02Embed(unsigned []byte, blob []byte) []byte {
	out, err := refpe.Attach(unsigned, blob)
	if err != nil {
		panic(err)
	}
	return out
}

func c02Run(c *hx.Ctx, tier, unit string) {
	vtime.Set(time.Date(2024, 5, 6, 7, 8, 9, 0, time.UTC))
	parts := strings.Split(unit, "#")
	bases := c02Bases()
	find := func(n string) []byte {
		for _, b := range bases {
			if b.name == n {
				return b.img
			}
		}
		return nil
	}
	switch parts[0] {
	case "bytes":
		img := find(parts[1])
		k, _ := strconv.Atoi(strings.TrimPrefix(parts[2], "k"))
		shard, _ := strconv.Atoi(parts[3])
		s, _, err := c02Sign(img, k)
		if err != nil {
			c.Violation("C02 signing a well-formed image fails", map[string]any{"error": err.Error()})
			return
		}
		certs := c02CertSet(k)
		if shard == 0 {
			c.Sample(map[string]any{"base": parts[1], "key": k, "signed_len": len(s), "unsigned_len": len(img)})
			c02Judge(c, s, "untampered", certs, true)
		}
		masks := []byte{0xff}
		if tier == "thorough" {
			masks = []byte{0xff, 0x01, 0x80}
		}
		stride := 1
		if len(s) > 4000 && tier != "thorough" {
			stride = 2
		}
		if len(s) > 20000 {
			stride = 211 // large image: a prime stride over the body, every byte of the last 4 KiB (the table)
		}
		mut := append([]byte{}, s...)
		for _, m := range masks {
			for off := shard * stride; off < len(s); off += c02ByteShards * stride {
				if stride > 2 && off > len(s)-4096 {
					break
				}
				mut[off] = s[off] ^ m
				c02Judge(c, mut, "single byte change @"+strconv.Itoa(off), certs, false)
				mut[off] = s[off]
				if c.Expired() {
					return
				}
			}
			if stride > 2 {
				for off := len(s) - 4096 + shard; off < len(s); off += c02ByteShards {
					mut[off] = s[off] ^ m
					c02Judge(c, mut, "single byte change @"+strconv.Itoa(off), certs, false)
					mut[off] = s[off]
				}
			}
		}
	case "order":
		// one parsed image object verified against several certificates in every order: each verdict
		// must be the one a fresh parse gives (no memory of earlier verifications)
		img := find(parts[1])
		k, _ := strconv.Atoi(strings.TrimPrefix(parts[2], "k"))
		s, _, err := c02Sign(img, k)
		if err != nil {
			return
		}
		certs := c02CertSet(k)
		fresh := make([]bool, len(certs))
		for i, ct := range certs {
			p, _ := authenticode.Parse(bytes.NewReader(s))
			fresh[i], _ = p.Verify(ct.c)
		}
		for _, order := range pegen.Perms(len(certs)) {
			for _, twice := range []bool{false, true} {
				if !c.Next() {
					continue
				}
				p, perr := authenticode.Parse(bytes.NewReader(s))
				if perr != nil {
					continue
				}
				seq := order
				if twice {
					seq = append(append([]int{}, order...), order...)
				}
				for _, ci := range seq {
					var ok bool
					if pn := hx.Try(func() { ok, _ = p.Verify(certs[ci].c) }); pn != nil {
						break
					}
					if ok != fresh[ci] {
						c.Outcome("order-dependent")
						c.Violation("C02 verdict of image verification depends on verifications made earlier on the same parsed object (against "+certs[ci].name+")", map[string]any{"order": seq, "fresh_verdicts": fresh})
						break
					}
				}
				c.Outcome("order-independent")
				c.Nontrivial([]byte(parts[1]), []byte(fmt.Sprint(seq)))
				// the lower-level twin: ONE parsed signature value (ParseAuthenticode of the table entry)
				// verified against the image stream for the same certificates in the same order
				if !c.Next() {
					continue
				}
				sigs, serr := p.Signatures()
				if serr != nil || len(sigs) == 0 {
					continue
				}
				var ac *authenticode.Authenticode
				var aerr error
				if pn := hx.Try(func() { ac, aerr = authenticode.ParseAuthenticode(sigs[0].Certificate) }); pn != nil || aerr != nil {
					continue
				}
				// the stream the digest is defined over, from the reference reader (s is already padded)
				var stream []byte
				if im, rerr := refpe.Parse(s); rerr == nil {
					for _, r := range im.HashedRanges() {
						stream = append(stream, s[r.From:r.To]...)
					}
				}
				hs := func() io.Reader { return bytes.NewReader(stream) }
				for _, ci := range seq {
					var ok bool
					if pn := hx.Try(func() { ok, _ = ac.Verify(certs[ci].c, hs()) }); pn != nil {
						break
					}
					if ok != fresh[ci] {
						c.Outcome("order-dependent")
						c.Violation("C02 verdict of verifying one parsed signature value against the image depends on verifications made earlier on that value (against "+certs[ci].name+")", map[string]any{"order": seq, "fresh_verdicts": fresh})
						break
					}
				}
			}
		}
	case "edits":
		img := find(parts[1])
		k, _ := strconv.Atoi(strings.TrimPrefix(parts[2], "k"))
		s, sig, err := c02Sign(img, k)
		if err != nil {
			return
		}
		certs := c02CertSet(k)
		unsigned, err := refpe.Strip(s)
		if err != nil {
			c.Note("library output not well-formed per reference: %v", err)
			return
		}
		seed := p7Seed{Name: "image signature", Blob: sig, Signer: keys.C(k), Key: keys.K(k), Wrong: keys.C(2), SameName: samePlate(keys.C(k)), HasAttrs: true}
		for _, e := range p7Edits(seed) {
			if e.RobustOnly {
				continue
			}
			c.Count("structural_edits", 1)
			c02Judge(c, c02Embed(unsigned, e.Blob), e.Name, certs, false)
		}
		// targeted forgeries: change a covered image byte and make the blob commit to the new digest
		im, _ := refpe.Parse(unsigned)
		targets := []int{2, im.SizeOfHeaders - 1, len(unsigned) - 1}
		for _, off := range targets {
			mod := append([]byte{}, unsigned...)
			mod[off] ^= 0x40
			nd, _, derr := refpe.Digest(mod)
			if derr != nil {
				continue
			}
			for _, variant := range []string{"embedded digest replaced by the digest of a modified image", "embedded digest and messageDigest attribute replaced to match a modified image",
				"modified image re-signed by another key naming the original certificate", "modified image re-signed by another key naming its own certificate",
				"modified image: content replaced, genuine signer kept, another validly signing signer vouches for the new content (placed first)",
				"modified image: content replaced, genuine signer kept, another validly signing signer vouches for the new content (placed last)",
				"modified image: content replaced, genuine signer kept, decoy signer entry carries the new digest (placed first)",
				"modified image: content replaced, genuine signer kept, decoy signer entry carries the new digest (placed last)",
				"modified image: content replaced, genuine signer kept, forged entry naming the same certificate (garbage signature) carries the new digest (placed first)",
				"modified image: content replaced, genuine signer kept, forged entry naming the same certificate (garbage signature) carries the new digest (placed last)",
				"modified image: content replaced, genuine signer kept, forged entry naming the same certificate (genuine signature value) carries the new digest (placed first)",
				"modified image: content replaced, genuine signer kept, forged entry naming the same certificate (genuine signature value) carries the new digest (placed last)",
				"modified image: content replaced, genuine signer kept, the new digest supplied as an unsigned messageDigest attribute"} {
				t, err := p7Open(sig)
				if err != nil {
					continue
				}
				inner := t.ci.Children[1].Children[0]
				inner.Children[1].Children[1].Val = nd
				if strings.HasPrefix(variant, "modified image: content replaced") {
					// genuine signer entry untouched; a second entry vouches for the new content
					md := sha256Sum(inner.Content())
					n := t.si.Clone()
					var nattrs *der.Node
					for _, ch := range n.Children {
						if ch.Tag == 0xa0 {
							nattrs = ch
						}
					}
					for _, a := range nattrs.Children {
						if bytes.Equal(a.Children[0].Val, refp7.OIDMessageDigest) {
							a.Children[1].Children[0].Val = md
						}
					}
					if strings.Contains(variant, "unsigned messageDigest") {
						t.si.Children = append(t.si.Children, der.Cons(0xa1, der.Cons(0x30, der.Prim(0x06, refp7.OIDMessageDigest), der.Cons(0x31, der.Prim(0x04, md)))))
						c02Judge(c, c02Embed(mod, t.root.Encode()), variant, certs, false)
						continue
					}
					if strings.Contains(variant, "decoy") {
						sv := n.Children[1].Children[1].Val
						sv[len(sv)-1] ^= 0x5a
					} else if strings.Contains(variant, "same certificate") {
						if strings.Contains(variant, "garbage") {
							for j, ch := range n.Children {
								if ch.Tag == 0x04 {
									n.Children[j].Val = bytes.Repeat([]byte{0x01}, len(ch.Val))
								}
							}
						}
					} else {
						n.Children[1].Children[0] = derMustParse(keys.C(2).RawIssuer).Clone()
						n.Children[1].Children[1].Val = serialBytes(keys.C(2).SerialNumber)
						for j, ch := range n.Children {
							if ch.Tag == 0x04 {
								n.Children[j].Val = signAttrs(keys.K(2), nattrs)
							}
						}
					}
					if strings.Contains(variant, "first") {
						t.signers.Children = append([]*der.Node{n}, t.signers.Children...)
					} else {
						t.signers.Children = append(t.signers.Children, n)
					}
					c02Judge(c, c02Embed(mod, t.root.Encode()), variant, certs, false)
					continue
				}
				if variant != "embedded digest replaced by the digest of a modified image" {
					md := sha256Sum(inner.Content())
					for _, a := range t.attrs.Children {
						if bytes.Equal(a.Children[0].Val, refp7.OIDMessageDigest) {
							a.Children[1].Children[0].Val = md
						}
					}
				}
				switch variant {
				case "modified image re-signed by another key naming the original certificate":
					t.si.Children[t.sigIdx].Val = signAttrs(keys.K(2), t.attrs)
				case "modified image re-signed by another key naming its own certificate":
					t.si.Children[t.sigIdx].Val = signAttrs(keys.K(2), t.attrs)
					t.si.Children[1].Children[0] = derMustParse(keys.C(2).RawIssuer).Clone()
					t.si.Children[1].Children[1].Val = serialBytes(keys.C(2).SerialNumber)
				}
				c02Judge(c, c02Embed(mod, t.root.Encode()), variant, certs, false)
			}
		}
		// the right key signs a digest that is NOT the image's but that a comparison weaker than
		// equality (checksum, fold, prefix) would take for it
		if d0, _, derr := refpe.Digest(unsigned); derr == nil {
			for _, tw := range weakeq.Twins(d0) {
				t, err := p7Open(sig)
				if err != nil {
					continue
				}
				inner := t.ci.Children[1].Children[0]
				inner.Children[1].Children[1].Val = append([]byte{}, tw.Value...)
				md := sha256Sum(inner.Content())
				for _, a := range t.attrs.Children {
					if bytes.Equal(a.Children[0].Val, refp7.OIDMessageDigest) {
						a.Children[1].Children[0].Val = md
					}
				}
				t.si.Children[t.sigIdx].Val = signAttrs(keys.K(k), t.attrs)
				c02Judge(c, c02Embed(unsigned, t.root.Encode()), "signature by the right key over another digest value with "+tw.Name, certs, false)
			}
		}
		// signature kept, image byte changed (no blob edit), at every region boundary
		for _, off := range targets {
			x := append([]byte{}, s...)
			x[off] ^= 0x40
			c02Judge(c, x, "covered image byte changed, signature kept", certs, false)
		}
	case "dirrewrite":
		// The certificate-table directory entry is not covered by the digest, so an adversary may rewrite
		// it together with covered bytes. Every combination of: the last j covered bytes in front of the
		// table changed (j = 1..8) x Size grown by ds x address moved back by da x a bytes of junk appended
		// (ds, da, a in 0..9). The reference decides each (a table that does not span address..EOF is
		// ill-formed); the library must not verify what the reference rejects.
		img := find(parts[1])
		k, _ := strconv.Atoi(strings.TrimPrefix(parts[2], "k"))
		s, _, err := c02Sign(img, k)
		if err != nil {
			return
		}
		im, err := refpe.Parse(s)
		if err != nil || im.CertSize == 0 {
			return
		}
		certs := c02CertSet(k)[:1]
		va, sz := int(im.CertOff), int(im.CertSize)
		for j := 1; j <= 8; j++ {
			for ds := 0; ds <= 9; ds++ {
				for da := 0; da <= 9; da++ {
					for a := 0; a <= 9; a++ {
						if ds == 0 && da == 0 && a == 0 {
							continue // plain covered-byte change: the bytes unit
						}
						if va-j < int(im.SizeOfHeaders) {
							continue
						}
						x := append([]byte{}, s...)
						for i := 1; i <= j; i++ {
							x[va-i] ^= 0xee
						}
						binary.LittleEndian.PutUint32(x[im.CertDirOff:], uint32(va-da))
						binary.LittleEndian.PutUint32(x[im.CertDirOff+4:], uint32(sz+ds))
						x = append(x, bytes.Repeat([]byte{0x5a}, a)...)
						c02Judge(c, x, fmt.Sprintf("last %d covered bytes changed, certificate directory size +%d, address -%d, %d bytes appended", j, ds, da, a), certs, false)
					}
				}
			}
		}
	case "transplants":
		type signedImg struct {
			name string
			k    int
			s    []byte
			sig  []byte
			raw  []byte
		}
		var all []signedImg
		for _, b := range bases {
			s, sig, err := c02Sign(b.img, 1)
			if err != nil {
				continue
			}
			all = append(all, signedImg{b.name, 1, s, sig, b.img})
		}
		certs := c02CertSet(1)
		for i := range all {
			for j := range all {
				if i == j {
					continue
				}
				// signature of image i on image j
				x := c02Embed(all[j].raw, all[i].sig)
				c.Sample(map[string]any{"signature_of": all[i].name, "transplanted_onto": all[j].name})
				c02Judge(c, x, "signature transplanted from another image", certs, false)
				// raw table copy with a consistent directory entry
				imi, _ := refpe.Parse(all[i].s)
				tbl := all[i].s[imi.CertOff:]
				y := append([]byte{}, all[j].raw...)
				for len(y)%8 != 0 {
					y = append(y, 0)
				}
				imj, _ := refpe.Parse(all[j].raw)
				off := len(y)
				y = append(y, tbl...)
				binary.LittleEndian.PutUint32(y[imj.CertDirOff:], uint32(off))
				binary.LittleEndian.PutUint32(y[imj.CertDirOff+4:], uint32(len(tbl)))
				c02Judge(c, y, "certificate table transplanted from another image", certs, false)
				// the other image carries its own valid signature by ANOTHER key, and the transplanted
				// genuine signature of image i sits behind / in front of it
				if own, err := c02SignBlob(all[j].raw, 2); err == nil {
					if z, err := refpe.Attach(all[j].raw, own, all[i].sig); err == nil {
						c02Judge(c, z, "transplanted signature behind the image's own signature by another key", certs, false)
					}
					if z, err := refpe.Attach(all[j].raw, all[i].sig, own); err == nil {
						c02Judge(c, z, "transplanted signature in front of the image's own signature by another key", certs, false)
					}
				}
			}
		}
	}
}
