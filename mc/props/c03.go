//go:build !verifsched

package props

import (
	"bytes"
	"crypto"
	_ "crypto/sha1"
	_ "crypto/sha512"
	"crypto/x509"
	"crypto/x509/pkix"
	"encoding/binary"
	"errors"
	"fmt"
	"io"
	"math/big"
	"os"
	"strconv"
	"strings"
	"time"

	"github.com/foxboron/go-uefi/authenticode"

	"verif/gen/pegen"
	"verif/internal/hx"
	"verif/keys"
	"verif/ref/refp7"
	"verif/ref/refpe"
	"verif/shim/vtime"
)

func init() {
	hx.Register(&hx.Prop{
		ID:    "C03",
		Level: "model_checking",
		Rule: "explicit-state search over signing histories on the real PECOFFBinary: initial states = well-formed images (6 synthetic layouts covering both formats, unordered sections, gaps, trailing data, size mod 8 in {0,1,3,5,7}; the same layouts carrying a third-party certificate table; the repository's test.pecoff and test.pecoff.signed); " +
			"transitions = Sign with an RSA-2048 / 3072 / 4096 key (self-signed certificates), with a CA-issued leaf certificate (issuer != subject), also by a key that already signed, and reparse (Parse(Bytes())); a state is (output bytes, number of in-place signatures since the last parse), deduplicated exactly; " +
			"in every state an independent reader checks the output file: original bytes preserved except the directory entry, zero padding to 8, 8-aligned table spanning exactly to EOF, every entry revision 0x0200 / type 0x0002 / dwLength = 8 + blob length, every blob's embedded digest = the unpadded specification digest of the output file itself, " +
			"Parse(out).Hash == digest before signing, Verify true for exactly the certificates that signed (false for the others and for same-issuer+serial-other-key); Open() delivers the bytes of Bytes() for one reader, for two readers read in turns and for a reader read across Bytes()/Hash(); AppendSignature of a signature made on a re-parsed copy is a transition too; " +
			"every history is run a second time with all read-only operations (Verify for every key, Hash, Signatures, Bytes, Open) called between the steps: same output bytes, same verdicts",
		Assumptions: []string{"frozen clock and memoised deterministic signatures make equal histories byte-identical", "refpe/refp7 as in C01/C04"},
		Units: func(tier string) []string {
			var u []string
			for i := range c03Inits() {
				u = append(u, "init#"+strconv.Itoa(i))
			}
			return append(u, "other-hash-arguments", "entry-length-residues#0", "entry-length-residues#1", "certificate-kinds#0", "certificate-kinds#1", "huge", "entry-bytes")
		},
		Run:        c03Run,
		SearchUnit: func(unit string) bool { return strings.HasPrefix(unit, "init#") },
		Bound: func(tier string) map[string]any {
			return map[string]any{"depth": c03Depth(tier), "keys": []int{2048, 3072, 4096}, "initial_states": len(c03Inits())}
		},
		Budget: dur(5*time.Minute, 40*time.Minute),
	})
}

func c03Depth(tier string) int {
	if tier == "thorough" {
		return 6
	}
	return 3
}

type c03Init struct {
	name string
	img  []byte
}

func c03Inits() []c03Init {
	var out []c03Init
	for i, l := range peBaseLayouts() {
		out = append(out, c03Init{fmt.Sprintf("layout%d", i), pegen.Build(l)})
	}
	out = append(out, c03Init{"110KB-image", pegen.Build(peBigLayout())})
	out = append(out, c03Init{"chunk-boundary-image", pegen.Build(peChunkBoundaryLayout())})
	out = append(out, c03Init{"image-with-64KiB-DOS-stub", pegen.Build(peLongStubLayout())})
	// unsigned images whose certificate-table directory entry holds a left-over address and size 0
	// (a stripped image whose address was not cleared): no table; the first signature starts one at
	// the end of the file like on any unsigned image
	for _, addr := range []uint32{16, 0x1000} {
		b := pegen.Build(peBaseLayouts()[0])
		if im, err := refpe.Parse(b); err == nil {
			binary.LittleEndian.PutUint32(b[im.CertDirOff:], addr)
			out = append(out, c03Init{fmt.Sprintf("layout0 with a left-over table address %#x and size 0", addr), b})
		}
	}
	// layouts carrying a third-party certificate table (a real sbsign signature blob as payload)
	if blob, err := os.ReadFile("/repo/authenticode/testdata/test.pecoff.pk7"); err == nil {
		for _, i := range []int{0, 1, 4} {
			if x, err := refpe.Attach(pegen.Build(peBaseLayouts()[i]), blob); err == nil {
				out = append(out, c03Init{fmt.Sprintf("layout%d+third-party-table", i), x})
			}
		}
	}
	for _, f := range []string{"/repo/authenticode/testdata/test.pecoff", "/repo/authenticode/testdata/test.pecoff.signed"} {
		if b, err := os.ReadFile(f); err == nil {
			if _, err := refpe.Parse(b); err == nil {
				out = append(out, c03Init{f[len("/repo/authenticode/testdata/"):], b})
			}
		}
	}
	return out
}

var c03KeyIDs = []int{1, 3, 4, 5} // 5 = key 1 with a CA-issued leaf certificate (issuer != subject)

type c03Op struct {
	name string
	key  int // 0 = reparse
}

func c03Ops() []c03Op {
	return []c03Op{{"Sign(RSA-2048 k1)", 1}, {"Sign(RSA-3072 k3)", 3}, {"Sign(RSA-4096 k4)", 4}, {"reparse", 0}, {"Sign(RSA-2048 k1, CA-issued leaf certificate)", 5},
		{"AppendSignature(signature by RSA-3072 k3 made on a re-parsed copy)", -3}}
}

type c03World struct {
	p       *authenticode.PECOFFBinary
	inplace int
	signers map[int]int // key id -> number of signatures
	orig    []byte      // unsigned original (stripped initial image)
	raw     []byte      // the initial image as it is
	nThird  int         // third-party entries present initially
	digest0 []byte      // reference digest of the initial image
}

// c03Check evaluates the state invariants on the output bytes.
func c03Check(w *c03World, out []byte) (string, map[string]any) {
	im, err := refpe.Parse(out)
	if err != nil {
		return "output file is not a well-formed image: " + errShort(err), map[string]any{"error": err.Error()}
	}
	total := w.nThird
	for _, n := range w.signers {
		total += n
	}
	if total == 0 {
		// never signed: the file must be the original
		ref := w.orig
		if w.nThird == 0 && w.raw != nil {
			ref = w.raw // (differs from orig only by a left-over table address that has no size)
		}
		if !bytes.Equal(out, ref) && !bytes.Equal(out, append(append([]byte{}, ref...), make([]byte, (8-len(ref)%8)%8)...)) {
			return "re-serialising an unsigned image changes it", nil
		}
		return "", nil
	}
	if len(out)%8 != 0 {
		return "signed file length is not a multiple of 8", nil
	}
	if im.CertSize == 0 {
		return "signed file has no certificate table entry", nil
	}
	stripped, _ := refpe.Strip(out)
	// original bytes preserved (except the 8-byte directory entry), then zero padding to 8
	pad := (8 - len(w.orig)%8) % 8
	if len(stripped) != len(w.orig)+pad {
		return "certificate table does not start right after the original image padded to 8 bytes", map[string]any{"table_offset": im.CertOff, "original_len": len(w.orig)}
	}
	if !bytes.Equal(stripped[:len(w.orig)], w.orig) {
		for i := range w.orig {
			if stripped[i] != w.orig[i] {
				return "an original byte outside the certificate-table directory entry is changed", map[string]any{"offset": i}
			}
		}
	}
	for _, b := range stripped[len(w.orig):] {
		if b != 0 {
			return "padding before the certificate table is not zero", nil
		}
	}
	// table entries
	self, _, _ := refpe.DigestUnpadded(out)
	entries := refpe.CertTable(out, im)
	if len(entries) != total {
		return fmt.Sprintf("certificate table holds %d entries, expected %d", len(entries), total), nil
	}
	for i, e := range entries {
		if e.Off%8 != 0 {
			return "certificate entry not 8-aligned", map[string]any{"entry": i}
		}
		if e.Revision != 0x0200 || e.Type != 0x0002 {
			return "certificate entry is not a revision-2.0 PKCS#7 WIN_CERTIFICATE", map[string]any{"entry": i, "revision": e.Revision, "type": e.Type}
		}
		if i < w.nThird {
			continue // third-party payload, untouched
		}
		sd, err := refp7.Parse(e.Body)
		if err != nil {
			return "certificate entry body is not a SignedData of exactly dwLength-8 bytes", map[string]any{"entry": i, "error": err.Error()}
		}
		d := spcDigest(sd)
		if !bytes.Equal(d, self) {
			return "embedded digest differs from the unpadded specification digest of the output file", map[string]any{"entry": i, "embedded": hx8(d), "file_digest": hx8(self)}
		}
	}
	if !bytes.Equal(self, w.digest0) {
		return "digest of the signed file differs from the digest before signing", nil
	}
	return "", nil
}

func errShort(err error) string {
	s := err.Error()
	if i := strings.Index(s, ": "); i >= 0 {
		s = s[i+2:]
	}
	s = normDigits(s)
	if len(s) > 70 {
		s = s[:70]
	}
	return s
}

func normDigits(s string) string {
	var sb strings.Builder
	prev := false
	for _, r := range s {
		if r >= '0' && r <= '9' {
			if !prev {
				sb.WriteByte('N')
			}
			prev = true
			continue
		}
		prev = false
		sb.WriteRune(r)
	}
	return sb.String()
}

// c03Residues signs with certificates whose sizes sweep every residue of the
// WIN_CERTIFICATE length mod 8 (subject names of length 1..16), once and twice,
// with and without re-parsing in between.
func c03Residues(c *hx.Ctx, shard int) {
	items := make([]c03Signer, 17)
	for l := 1; l <= 16; l++ {
		items[l] = c03Signer{keys.Cert(pkix.Name{CommonName: strings.Repeat("n", l)}, big.NewInt(int64(0x900+l)), &keys.K(1).PublicKey, keys.K(1)), 1, fmt.Sprintf("k1, CN of %d chars", l)}
	}
	c03CertSweep(c, shard, items, "certificate-size sweep")
}

type c03Signer struct {
	cert *x509.Certificate
	key  int
	name string
}

// c03Variety: certificates of every kind for the signing key (own signature algorithm SHA-384/512/PSS,
// issued by RSA / ECDSA / Ed25519 CAs), and key rollover: two certificates with the same issuer and
// serial number but different keys signing one after the other (each must verify, in both orders).
func c03Variety(c *hx.Ctx, shard int) {
	items := []c03Signer{{}}
	for i, vc := range keys.Variety(1) {
		items = append(items, c03Signer{vc, 1, "k1, certificate " + keys.Kinds()[i].Name})
	}
	items = append(items, c03Signer{keys.C(5), 5, "k5 (2050-bit modulus)"}, c03Signer{keys.C(6), 6, "k6 (2047-bit modulus)"})
	plate := pkix.Name{CommonName: "verif rollover", Organization: []string{"verif"}}
	rx := keys.Cert(plate, big.NewInt(0x7777), &keys.K(1).PublicKey, keys.K(1))
	ry := keys.Cert(plate, big.NewInt(0x7777), &keys.K(2).PublicKey, keys.K(2))
	items = append(items, c03Signer{rx, 1, "k1, rollover certificate"}, c03Signer{ry, 2, "k2, same issuer and serial as the rollover certificate"}, c03Signer{rx, 1, "k1, rollover certificate"})
	c03CertSweep(c, shard, items, "certificate kinds and key rollover")
}

// c03CertSweep signs with items[l], then items[l%n+1] (items[0] is unused), with and without
// re-parsing in between, and checks the well-formedness and verification clauses after each step.
func c03CertSweep(c *hx.Ctx, shard int, items []c03Signer, label string) {
	c03CertSweepOn(c, pegen.Build(peBaseLayouts()[shard*2]), shard, items, label)
}

// c03EntryBytes: histories whose outcome depends on the BYTES of an earlier table entry, which no
// size or layout alphabet reaches: (a) for every residue of the entry length mod 8, an image whose
// signature happens to end in a zero octet (found by searching image variants), signed and then
// signed again; (b) signers whose entry length is a multiple of 256 (the entry then starts with a
// zero octet), found by searching certificate sizes, as first and as later entry.
func c03EntryBytes(c *hx.Ctx) {
	c.NoOnly = true
	vtime.Set(time.Date(2024, 5, 6, 7, 8, 9, 0, time.UTC))
	mk := func(l int) *x509.Certificate {
		return keys.Cert(pkix.Name{CommonName: strings.Repeat("z", l)}, big.NewInt(int64(0xA00+l)), &keys.K(1).PublicKey, keys.K(1))
	}
	sigOf := func(img []byte, ct *x509.Certificate) []byte {
		p, err := authenticode.Parse(bytes.NewReader(img))
		if err != nil {
			return nil
		}
		sig, _ := p.Sign(memoSignerFor(1), ct)
		return sig
	}
	second := c03Signer{keys.C(3), 3, "k3"}
	// (a)
	found := 0
	for l := 1; l <= 8; l++ {
		ct := mk(l)
		for v := 0; v < 4096; v++ {
			img := pegen.Build(pegen.Layout{PE32Plus: true, Lfanew: 0x40, Secs: []pegen.Sec{{RawSize: 8}, {RawSize: 13}}, Trailing: 4})
			img[len(img)-1], img[len(img)-2] = byte(v), byte(v>>8)
			sig := sigOf(img, ct)
			if len(sig) == 0 || sig[len(sig)-1] != 0 {
				continue
			}
			found++
			c.Count("entry_ending_in_zero_octet_residue_"+strconv.Itoa((8+len(sig))%8), 1)
			c03CertSweepOn(c, img, 0, []c03Signer{{}, {ct, 1, fmt.Sprintf("k1, CN of %d chars: signature ending in a zero octet", l)}, second}, "entry bytes: earlier signature ends in a zero octet")
			break
		}
	}
	// (b)
	base := pegen.Build(peBaseLayouts()[0])
	n256 := 0
	for l := 0; l < 400 && n256 < 2; l++ {
		// name length moves the entry length in steps of 3, serial-number length in steps of 2
		serial := new(big.Int).Lsh(big.NewInt(0x41), uint(8*(l%4)))
		ct := keys.Cert(pkix.Name{CommonName: strings.Repeat("y", 1+l/4)}, serial, &keys.K(1).PublicKey, keys.K(1))
		sig := sigOf(base, ct)
		if len(sig) == 0 || (8+len(sig))%256 != 0 {
			continue
		}
		n256++
		it := c03Signer{ct, 1, fmt.Sprintf("k1, certificate sized so that the entry length is %d, a multiple of 256", 8+len(sig))}
		c03CertSweepOn(c, base, 0, []c03Signer{{}, second, it, it, second}, "entry bytes: entry length a multiple of 256")
	}
	c.Count("signatures_ending_in_zero_found", uint64(found))
	c.Count("entry_lengths_multiple_of_256_found", uint64(n256))
}

func c03CertSweepOn(c *hx.Ctx, base []byte, shard int, items []c03Signer, label string) {
	c.NoOnly = true
	vtime.Set(time.Date(2024, 5, 6, 7, 8, 9, 0, time.UTC))
	orig := append([]byte{}, base...)
	digest0, _, _ := refpe.Digest(base)
	nItems := len(items) - 1
	residues := map[int]bool{}
	for l := 1; l <= nItems; l++ {
		for _, reparse := range []bool{false, true} {
			c.Next()
			c.Count("transitions", 2)
			c.Count("traces", 1)
			hist := []string{fmt.Sprintf("image: layout%d", shard*2), fmt.Sprintf("Sign(%s)", items[l].name)}
			w := &c03World{signers: map[int]int{}, orig: orig, digest0: digest0}
			var v string
			var d map[string]any
			pn := hx.Try(func() {
				var err error
				w.p, err = authenticode.Parse(bytes.NewReader(base))
				if err != nil {
					v = "well-formed image rejected"
					return
				}
				sig, err := w.p.Sign(memoSignerFor(items[l].key), items[l].cert)
				if err != nil {
					v = "Sign fails"
					return
				}
				residues[(8+len(sig))%8] = true
				w.signers[100+l]++
				if v, d = c03Check(w, w.p.Bytes()); v != "" {
					return
				}
				if reparse {
					hist = append(hist, "reparse")
					if w.p, err = authenticode.Parse(bytes.NewReader(w.p.Bytes())); err != nil {
						v = "output rejected by the library's own parser"
						return
					}
				}
				l2 := l%nItems + 1
				hist = append(hist, fmt.Sprintf("Sign(%s)", items[l2].name))
				if _, err = w.p.Sign(memoSignerFor(items[l2].key), items[l2].cert); err != nil {
					v = "second Sign fails"
					return
				}
				w.signers[100+l2]++
				out := w.p.Bytes()
				if v, d = c03Check(w, out); v != "" {
					return
				}
				rp, err := authenticode.Parse(bytes.NewReader(out))
				if err != nil {
					v = "output rejected by the library's own parser"
					return
				}
				for _, obj := range []*authenticode.PECOFFBinary{w.p, rp} {
					for _, ct := range []*x509.Certificate{items[l].cert, items[l2].cert} {
						if ok, err := obj.Verify(ct); !ok {
							v, d = "Verify against a certificate that signed returns false", map[string]any{"error": fmt.Sprint(err)}
							return
						}
					}
					if sigs, err := obj.Signatures(); err != nil || len(sigs) != 2 {
						v, d = "Signatures() does not list the 2 entries of the table", map[string]any{"listed": len(sigs), "error": fmt.Sprint(err)}
						return
					}
				}
			})
			switch {
			case pn != nil:
				c.Outcome("panic")
				c.Violation("C03 signing history ends in "+pn.String(), map[string]any{"history": hist})
			case v != "":
				c.Outcome("state-violation")
				c.Violation("C03 "+v+" ["+label+"]", map[string]any{"history": hist, "detail": d})
			default:
				c.Outcome("state-ok")
				c.Count("states", 2)
				c.Nontrivial([]byte(fmt.Sprint(shard, l, reparse)))
			}
		}
	}
	c.Count("entry_length_residues_mod_8_covered", uint64(len(residues)))
	if len(residues) < 8 {
		c.Note("certificate-size sweep covered only %d of 8 residues of the entry length mod 8", len(residues))
	}
	c.Sample(map[string]any{"unit": "entry-length-residues", "residues_covered": len(residues)})
}

func c03Run(c *hx.Ctx, tier, unit string) {
	c.NoOnly = true
	vtime.Set(time.Date(2024, 5, 6, 7, 8, 9, 0, time.UTC))
	if unit == "other-hash-arguments" {
		c03OtherHash(c)
		return
	}
	if unit == "entry-bytes" {
		c03EntryBytes(c)
		return
	}
	if unit == "huge" {
		c03Huge(c, tier)
		return
	}
	if strings.HasPrefix(unit, "certificate-kinds#") {
		c03Variety(c, int(unit[len(unit)-1]-'0'))
		return
	}
	if strings.HasPrefix(unit, "entry-length-residues#") {
		c03Residues(c, int(unit[len(unit)-1]-'0'))
		return
	}
	ii, _ := strconv.Atoi(strings.TrimPrefix(unit, "init#"))
	in := c03Inits()[ii]
	ops := c03Ops()
	depth := c03Depth(tier)
	orig, err := refpe.Strip(in.img)
	if err != nil {
		c.Note("initial image rejected by the reference: %v", err)
		return
	}
	// Strip keeps the padding before an existing table; the true original ends before it only for
	// images we attached ourselves, where the padding is part of what a signer must preserve anyway.
	im0, _ := refpe.Parse(in.img)
	nThird := len(refpe.CertTable(in.img, im0))
	digest0, _, _ := refpe.Digest(in.img)
	certOf := map[int]*x509.Certificate{1: keys.C(1), 3: keys.C(3), 4: keys.C(4), 5: keys.Leaf(1)}
	keyOf := map[int]int{1: 1, 3: 3, 4: 4, 5: 1}

	// observe: every read-only operation on the object (the histories are run once without and once
	// with these between the steps: they must not influence what the next step does)
	observe := func(p *authenticode.PECOFFBinary) {
		for _, k := range c03KeyIDs {
			p.Verify(certOf[k])
		}
		p.Hash(crypto.SHA256)
		p.Signatures()
		p.Bytes()
		io.Copy(io.Discard, p.Open())
	}
	buildObs := func(path []int, observed bool) (*c03World, error, *hx.Panic) {
		w := &c03World{signers: map[int]int{}, orig: orig, raw: in.img, nThird: nThird, digest0: digest0}
		var err error
		pn := hx.Try(func() {
			w.p, err = authenticode.Parse(bytes.NewReader(in.img))
			if err != nil {
				return
			}
			for _, oi := range path {
				if observed {
					observe(w.p)
				}
				op := ops[oi]
				if op.key == 0 {
					w.p, err = authenticode.Parse(bytes.NewReader(w.p.Bytes()))
					w.inplace = 0
				} else if op.key < 0 {
					var cp *authenticode.PECOFFBinary
					if cp, err = authenticode.Parse(bytes.NewReader(w.p.Bytes())); err != nil {
						return
					}
					var sig []byte
					if sig, err = cp.Sign(memoSignerFor(keyOf[-op.key]), certOf[-op.key]); err != nil {
						return
					}
					err = w.p.AppendSignature(sig)
					w.inplace++
					w.signers[-op.key]++
				} else {
					_, err = w.p.Sign(memoSignerFor(keyOf[op.key]), certOf[op.key])
					w.inplace++
					w.signers[op.key]++
				}
				if err != nil {
					return
				}
			}
		})
		return w, err, pn
	}
	build := func(path []int) (*c03World, error, *hx.Panic) { return buildObs(path, false) }
	hist := func(path []int) []string {
		h := []string{"image: " + in.name}
		for _, oi := range path {
			h = append(h, ops[oi].name)
		}
		return h
	}
	judge := func(w *c03World, path []int) (string, map[string]any) {
		var out []byte
		var v string
		var d map[string]any
		pn := hx.Try(func() {
			out = w.p.Bytes()
			if v, d = c03Check(w, out); v != "" {
				return
			}
			// library's own view of the output
			rp, err := authenticode.Parse(bytes.NewReader(out))
			if err != nil {
				v, d = "output file is rejected by the library's own parser", map[string]any{"error": err.Error()}
				return
			}
			if h := rp.Hash(crypto.SHA256); !bytes.Equal(h, digest0) {
				v, d = "re-parsing the output reports another digest than before signing", map[string]any{"before": hx8(digest0), "after": hx8(h)}
				return
			}
			if h := w.p.Hash(crypto.SHA256); !bytes.Equal(h, digest0) {
				v = "the signed object reports another digest than before signing"
				return
			}
			for _, obj := range []struct {
				name string
				p    *authenticode.PECOFFBinary
			}{{"signed object", w.p}, {"re-parsed output", rp}} {
				for _, k := range c03KeyIDs {
					ok, err := obj.p.Verify(certOf[k])
					want := w.signers[k] > 0
					if ok != want || (want && err != nil) {
						v = fmt.Sprintf("%s: Verify against a certificate that %s returns %v", obj.name, map[bool]string{true: "signed", false: "did not sign"}[want], ok)
						d = map[string]any{"key": k, "error": fmt.Sprint(err)}
						return
					}
					if !want && err != nil && !errors.Is(err, authenticode.ErrNoSignatures) && !errors.Is(err, authenticode.ErrNoValidSignatures) {
						// any error is acceptable for a negative result; nothing to judge
						_ = err
					}
					if want {
						if ok2, _ := obj.p.Verify(samePlate(certOf[k])); ok2 {
							v = obj.name + ": Verify succeeds for a certificate with the same issuer and serial but another key"
							return
						}
					}
				}
				// the streamed form: one reader, two readers read in turns, a reader interrupted by Bytes()
				if got, _ := io.ReadAll(obj.p.Open()); !bytes.Equal(got, out) {
					v = obj.name + ": Open() does not deliver the bytes of Bytes()"
					return
				}
				r1, r2 := obj.p.Open(), obj.p.Open()
				var g1, g2 []byte
				chunk := make([]byte, 97)
				for done1, done2 := false, false; !done1 || !done2; {
					if n, e := r1.Read(chunk); n > 0 || e == nil {
						g1 = append(g1, chunk[:n]...)
					} else {
						done1 = true
					}
					if n, e := r2.Read(chunk[:61]); n > 0 || e == nil {
						g2 = append(g2, chunk[:n]...)
					} else {
						done2 = true
					}
					if len(g1) > 2*len(out)+1000 || len(g2) > 2*len(out)+1000 {
						break
					}
				}
				if !bytes.Equal(g1, out) || !bytes.Equal(g2, out) {
					v = obj.name + ": two readers from Open() read in turns do not both deliver the bytes of Bytes()"
					d = map[string]any{"len1": len(g1), "len2": len(g2), "want": len(out)}
					return
				}
				r3 := obj.p.Open()
				half := make([]byte, len(out)/2)
				n3, _ := io.ReadFull(r3, half)
				obj.p.Bytes()
				obj.p.Hash(crypto.SHA256)
				rest, _ := io.ReadAll(r3)
				if !bytes.Equal(append(half[:n3:n3], rest...), out) {
					v = obj.name + ": a reader from Open() that is read across calls of Bytes()/Hash() does not deliver the bytes of Bytes()"
					return
				}
				sigs, err := obj.p.Signatures()
				total := w.nThird
				for _, n := range w.signers {
					total += n
				}
				if err != nil || len(sigs) != total {
					v = fmt.Sprintf("%s: Signatures() does not list the %d entries of the table", obj.name, total)
					d = map[string]any{"listed": len(sigs), "error": fmt.Sprint(err)}
					return
				}
			}
		})
		if pn != nil {
			return "checking the state ends in " + pn.String(), map[string]any{"stack": pn.Stack}
		}
		return v, d
	}

	seen := map[string]bool{}
	type node struct{ path []int }
	w0, err, pn := build(nil)
	if err != nil || pn != nil {
		c.Violation("C03 well-formed initial image rejected", map[string]any{"image": in.name, "error": fmt.Sprint(err, pn)})
		return
	}
	if v, d := judge(w0, nil); v != "" {
		c.Violation("C03 "+v, map[string]any{"history": hist(nil), "detail": d})
	}
	seen[string(w0.p.Bytes())+"#0"] = true
	c.Count("states", 1)
	frontier := []node{{nil}}
	maxDepth := 0
	for level := 0; level < depth && len(frontier) > 0; level++ {
		var next []node
		for _, nd := range frontier {
			for oi, op := range ops {
				if c.Expired() {
					return
				}
				c.Next()
				path := append(append([]int{}, nd.path...), oi)
				w, err, pn := build(path)
				c.Count("transitions", 1)
				c.Count("traces", 1)
				if pn != nil {
					c.Outcome("step-panic")
					c.Violation("C03 "+opKind(op)+" ends in "+pn.String(), map[string]any{"history": hist(path)})
					continue
				}
				if err != nil {
					c.Outcome("step-error")
					c.Violation("C03 "+opKind(op)+" of a well-formed image fails", map[string]any{"history": hist(path), "error": err.Error()})
					continue
				}
				if v, d := judge(w, path); v != "" {
					c.Outcome("state-violation")
					c.Violation("C03 "+v+" [after "+opKind(op)+"]", map[string]any{"history": hist(path), "detail": d})
					continue
				}
				// the same history with every read-only operation called between the steps
				if wo, erro, pno := buildObs(path, true); pno != nil || erro != nil {
					c.Outcome("state-violation")
					c.Violation("C03 "+opKind(op)+" fails when read-only operations (Verify, Hash, Signatures, Bytes, Open) were called on the object between the steps", map[string]any{"history": hist(path), "error": fmt.Sprint(erro, pno)})
					continue
				} else if !bytes.Equal(wo.p.Bytes(), w.p.Bytes()) {
					c.Outcome("state-violation")
					c.Violation("C03 the output differs when read-only operations (Verify, Hash, Signatures, Bytes, Open) were called on the object between the steps", map[string]any{"history": hist(path)})
					continue
				} else if v, d := judge(wo, path); v != "" {
					c.Outcome("state-violation")
					c.Violation("C03 "+v+" [after "+opKind(op)+", with read-only operations called between the steps]", map[string]any{"history": hist(path), "detail": d})
					continue
				}
				k := string(w.p.Bytes()) + "#" + strconv.Itoa(w.inplace)
				if seen[k] {
					c.Outcome("revisit")
					continue
				}
				seen[k] = true
				c.Count("states", 1)
				c.Nontrivial([]byte(unit), []byte(k))
				c.Outcome("state-ok")
				if len(path) > maxDepth {
					maxDepth = len(path)
				}
				if len(seen)%7 == 2 {
					c.Sample(map[string]any{"history": hist(path), "output_len": len(w.p.Bytes())})
				}
				next = append(next, node{path})
			}
		}
		frontier = next
	}
	c.Max("max:depth", uint64(maxDepth))
}

func opKind(op c03Op) string {
	if op.key == 0 {
		return "reparse"
	}
	if op.key < 0 {
		return "AppendSignature"
	}
	return "Sign"
}

// c03OtherHash: the lower-level entry points take a hash argument that Sign never varies. Whatever
// they do with SHA-1 / SHA-384 / SHA-512 (an error, or a blob labelled accordingly), signing and
// verifying images afterwards is what it was before: byte-identical output, same verdicts (and the
// library's exported tables are unchanged: checked for every unit by the harness).
func c03OtherHash(c *hx.Ctx) {
	c.NoOnly = true
	vtime.Set(time.Date(2024, 5, 6, 7, 8, 9, 0, time.UTC))
	base := pegen.Build(peBaseLayouts()[0])
	signOnce := func() ([]byte, bool, error) {
		p, err := authenticode.Parse(bytes.NewReader(base))
		if err != nil {
			return nil, false, err
		}
		if _, err := p.Sign(memoSignerFor(1), keys.C(1)); err != nil {
			return nil, false, err
		}
		out := p.Bytes()
		rp, err := authenticode.Parse(bytes.NewReader(out))
		if err != nil {
			return out, false, err
		}
		ok, _ := rp.Verify(keys.C(1))
		return out, ok, nil
	}
	want, wok, werr := signOnce()
	if werr != nil || !wok {
		c.Violation("C03 signing a well-formed image fails", map[string]any{"error": fmt.Sprint(werr), "verifies": wok})
		return
	}
	for _, h := range []crypto.Hash{crypto.SHA1, crypto.SHA384, crypto.SHA512, crypto.SHA256, crypto.Hash(0), crypto.Hash(99)} {
		for _, entry := range []string{"CreateSpcIndirectDataContent", "SignAuthenticode"} {
			c.Next()
			pn := hx.Try(func() {
				if entry == "SignAuthenticode" {
					if h.Available() {
						authenticode.SignAuthenticode(memoSignerFor(1), keys.C(1), bytes.NewReader([]byte("stream")), h)
					}
				} else {
					authenticode.CreateSpcIndirectDataContent(fill(32, 7), h)
				}
			})
			_ = pn // whether these calls succeed, fail or end abnormally is not C03's subject
			got, ok, err := signOnce()
			if err != nil || !ok || !bytes.Equal(got, want) {
				c.Outcome("state-violation")
				c.Violation("C03 signing an image gives another result after "+entry+" was called with another hash function", map[string]any{"hash": fmt.Sprint(h), "error": fmt.Sprint(err), "verifies": ok, "same_bytes": bytes.Equal(got, want)})
				return
			}
			// images signed earlier still verify
			rp, err := authenticode.Parse(bytes.NewReader(want))
			if err != nil {
				c.Violation("C03 an image signed earlier no longer parses after "+entry+" was called with another hash function", map[string]any{"hash": fmt.Sprint(h)})
				return
			}
			if ok, verr := rp.Verify(keys.C(1)); !ok {
				c.Outcome("state-violation")
				c.Violation("C03 an image signed earlier no longer verifies after "+entry+" was called with another hash function", map[string]any{"hash": fmt.Sprint(h), "error": fmt.Sprint(verr)})
				return
			}
			c.Outcome("state-ok")
			c.Count("transitions", 1)
			c.Nontrivial([]byte(entry), []byte(fmt.Sprint(h)))
		}
	}
}
