//go:build !verifsched

package props

import (
	"bytes"
	"crypto/x509"
	"fmt"
	"strconv"
	"strings"
	"time"

	"github.com/foxboron/go-uefi/authenticode"
	"github.com/foxboron/go-uefi/efi/signature"
	"github.com/foxboron/go-uefi/pkcs7"

	"verif/internal/hx"
	"verif/ref/refp7"
)

func init() {
	hx.Register(&hx.Prop{
		ID:    "C04",
		Level: "exploration",
		Rule: "seeds: valid SignedData blobs from three producers (library: detached data with RSA-2048/4096 and attached SpcIndirectDataContent; openssl smime/cms, detached and attached, produced at check time; the repository's sbsign/sbvarsign artefacts). " +
			"derivations: (a) every byte position x every single-bit change (quick) / every other byte value (thorough); (b) a catalogue of ~45 structural DER edits (swap/remove/duplicate/add attributes, replace/remove/insert content, content-type OIDs, attribute values, certificates, signer identity, signature by another key, re-signing with changed or permuted attributes, extra SignerInfos, dropped attributes, non-minimal lengths); " +
			"(c) each blob x verifying certificate {signer's, another key and name, same issuer+serial with another key} x entry point {ParsePKCS7+Verify, ParseAuthenticode+Verify, EFIVariableAuthentication2.Verify (wrapped and bare)}. " +
			"oracle: library returns (true,nil) => the from-the-RFC verifier accepts (signer names the certificate, RSA-SHA256 valid over the attributes exactly as they appear, messageDigest == SHA-256(encapsulated content)); every other outcome is false or an error, never a panic; untouched seeds with signed attributes verify. " +
			"non-trivial = the library parsed the derived blob and evaluated a signer (returned true, false or a verification error); distinct = distinct (blob, certificate, entry point)",
		Assumptions: []string{"refp7 verifier over the der TLV walker, crypto/rsa, crypto/sha256", "RSA and SHA-256 themselves are trusted", "soundness is relative to the enumerated derivation families"},
		Units:       c04Units,
		Run:         c04Run,
		Bound: func(tier string) map[string]any {
			return map[string]any{"byte_values_per_position": map[string]int{"quick": 12, "thorough": 255}[tier]}
		},
		Budget: dur(5*time.Minute, 40*time.Minute),
	})
}

const c04ByteShards = 8

func c04SeedNames() []string {
	return []string{"lib-detached-data-k1", "lib-detached-data-k4", "lib-detached-data-k7", "lib-detached-data-leaf-k1", "lib-authenticode-k1", "openssl-smime-detached", "openssl-smime-nodetach", "openssl-cms-detached-nosmimecap",
		"fixture-authenticode/testdata/test.authenticode.signed", "fixture-authenticode/testdata/test.pecoff.pk7", "fixture-pkcs7/testdata/test.signed"}
}

func c04Units(tier string) []string {
	var u []string
	for _, s := range c04SeedNames() {
		u = append(u, "edits#"+s)
		if s == "lib-detached-data-k7" && tier != "thorough" { // the e=3 key: forgeries without the private key are structural edits
			continue
		}
		for k := 0; k < c04ByteShards; k++ {
			u = append(u, fmt.Sprintf("bytes#%s#%d", s, k))
		}
	}
	return u
}

func c04Seed(name string) (*p7Seed, error) {
	var all []p7Seed
	switch {
	case strings.HasPrefix(name, "lib-"):
		all = p7LibSeeds()
	case strings.HasPrefix(name, "openssl-"):
		var err error
		all, err = p7OpenSSLSeeds(false)
		if err != nil {
			return nil, err
		}
	default:
		all = p7FixtureSeeds()
	}
	for i := range all {
		if all[i].Name == name {
			return &all[i], nil
		}
	}
	return nil, fmt.Errorf("seed %s not available", name)
}

type c04Entry struct {
	name string
	run  func(blob []byte, cert *x509.Certificate, s *p7Seed) (ok bool, err error, evaluated bool)
}

var c04Entries = []c04Entry{
	{"ParsePKCS7+Verify", func(blob []byte, cert *x509.Certificate, s *p7Seed) (bool, error, bool) {
		p, err := pkcs7.ParsePKCS7(blob)
		if err != nil {
			return false, err, false
		}
		ok, err := p.Verify(cert)
		return ok, err, true
	}},
	{"ParseAuthenticode+Verify", func(blob []byte, cert *x509.Certificate, s *p7Seed) (bool, error, bool) {
		a, err := authenticode.ParseAuthenticode(blob)
		if err != nil {
			return false, err, false
		}
		ok, err := a.Verify(cert, bytes.NewReader(s.Img))
		return ok, err, true
	}},
	{"EFIVariableAuthentication2.Verify", func(blob []byte, cert *x509.Certificate, s *p7Seed) (bool, error, bool) {
		a := signature.NewEFIVariableAuthentication2()
		a.AuthInfo.CertData = blob
		ok, err := a.Verify(cert)
		return ok, err, true
	}},
}

func c04Judge(c *hx.Ctx, s *p7Seed, blob []byte, class string, isSeed bool) {
	certs := []struct {
		name string
		c    *x509.Certificate
	}{{"signer's certificate", s.Signer}, {"another certificate", s.Wrong}, {"same issuer+serial, other key", s.SameName}}
	for ei, e := range c04Entries {
		if e.name == "ParseAuthenticode+Verify" && s.Img == nil {
			continue
		}
		for ci, cert := range certs {
			if !c.Next() {
				continue
			}
			var ok, evaluated bool
			var err error
			pristine := append([]byte{}, blob...)
			pn := hx.Try(func() { ok, err, evaluated = e.run(blob, cert.c, s) })
			if !bytes.Equal(blob, pristine) {
				c.Outcome("input-modified")
				c.Violation("C04 parsing/verifying modifies the signature bytes it was given", map[string]any{"seed": s.Name, "derivation": class, "entry": e.name})
				copy(blob, pristine)
			}
			detail := func() map[string]any {
				return map[string]any{"seed": s.Name, "derivation": class, "entry": e.name, "certificate": cert.name, "blob": hx8(blob), "error": fmt.Sprint(err)}
			}
			if pn != nil {
				c.Outcome("panic")
				d := detail()
				d["stack"] = pn.Stack
				c.Violation(fmt.Sprintf("C04 verification ends in %s", pn.String()), d)
				continue
			}
			if evaluated {
				c.Nontrivial(blob, []byte{byte(ei), byte(ci)})
			}
			if ok && err == nil {
				v := refp7.ParseAndValid(blob, cert.c, nil)
				if !v.OK {
					c.Outcome("accepted-invalid")
					d := detail()
					d["reference"] = v.Reason
					c.Violation(fmt.Sprintf("C04 accepts an invalid blob: %s [%s; verified against %s]", v.Reason, classKind(class), cert.name), d)
					continue
				}
				c.Outcome("accepted-valid")
				continue
			}
			if ok && err != nil {
				c.Outcome("true-with-error")
				c.Violation("C04 verification returns true together with an error", detail())
				continue
			}
			c.Outcome("rejected")
			if isSeed && ci == 0 && s.HasAttrs {
				c.Outcome("seed-rejected")
				c.Violation(fmt.Sprintf("C04 %s rejects an untouched valid signature (%s)", e.name, s.Producer), detail())
			}
		}
	}
}

// c04Order verifies ONE parsed object against the three certificates in every order (and twice):
// each verdict must be the one a fresh parse gives.
func c04Order(c *hx.Ctx, s *p7Seed) { c04OrderBlob(c, s, s.Blob, "untouched seed") }

// c04OrderBlob: one parsed value of blob asked about the three certificates in every order, twice:
// every verdict must be the one a freshly parsed value gives (no memory of earlier verifications).
func c04OrderBlob(c *hx.Ctx, s *p7Seed, blob []byte, class string) {
	// (3, 4: the same issuer and serial under a key with a larger and with a smaller modulus than the
	// signer's: a verification attempt against them must not leave anything behind either)
	others := samePlatesOtherSizes(s.Signer)
	certs := []*x509.Certificate{s.Signer, s.Wrong, s.SameName, others[0], others[1]}
	names := []string{"signer's certificate", "another certificate", "same issuer+serial, other key", "same issuer+serial, key of another size", "same issuer+serial, key of a third size"}
	fresh := make([]bool, len(certs))
	for i, ct := range certs {
		if p, err := pkcs7.ParsePKCS7(blob); err == nil {
			hx.Try(func() { fresh[i], _ = p.Verify(ct) })
		}
	}
	orders := [][]int{{0, 1, 2}, {0, 2, 1}, {1, 0, 2}, {1, 2, 0}, {2, 0, 1}, {2, 1, 0}, {3, 0, 4}, {4, 0, 3}, {0, 3, 4}}
	for _, o := range orders {
		seq := append(append([]int{}, o...), o...)
		if !c.Next() {
			continue
		}
		p, err := pkcs7.ParsePKCS7(blob)
		if err != nil {
			continue
		}
		for _, ci := range seq {
			var ok bool
			if pn := hx.Try(func() { ok, _ = p.Verify(certs[ci]) }); pn != nil {
				break
			}
			if ok != fresh[ci] {
				c.Outcome("order-dependent")
				c.Violation("C04 verdict depends on verifications made earlier on the same parsed object (against "+names[ci]+")", map[string]any{"seed": s.Name, "derivation": class, "order": seq, "fresh_verdicts": fresh})
				break
			}
		}
		c.Outcome("order-independent")
	}
}

// classKind strips indices from a derivation label.
func classKind(class string) string {
	if i := strings.Index(class, " @"); i >= 0 {
		return class[:i]
	}
	return class
}

func c04Run(c *hx.Ctx, tier, unit string) {
	parts := strings.Split(unit, "#")
	s, err := c04Seed(parts[1])
	if err != nil {
		c.Note("seed unavailable: %v", err)
		return
	}
	switch parts[0] {
	case "edits":
		c.Sample(map[string]any{"seed": s.Name, "producer": s.Producer, "blob_len": len(s.Blob), "has_attrs": s.HasAttrs})
		c04Judge(c, s, s.Blob, "untouched seed", true)
		c04Order(c, s)
		// the bare form (no outer ContentInfo) of the seed is a valid input too
		for _, e := range p7Edits(*s) {
			if e.RobustOnly {
				continue
			}
			c.Count("structural_edits", 1)
			c04Judge(c, s, e.Blob, e.Name, e.Name == "strip outer ContentInfo")
			c04OrderBlob(c, s, e.Blob, e.Name)
		}
	case "bytes":
		k, _ := strconv.Atoi(parts[2])
		// candidate replacement values per position: thorough = every other value; quick = every
		// single-bit change plus the boundary values 0x00, 0xff, v-1, v+1 (length and tag bytes)
		vals := func(v byte) []byte {
			var out []byte
			if tier == "thorough" {
				for x := 0; x < 256; x++ {
					if byte(x) != v {
						out = append(out, byte(x))
					}
				}
				return out
			}
			seen := map[byte]bool{v: true}
			for _, x := range []byte{v ^ 1, v ^ 2, v ^ 4, v ^ 8, v ^ 16, v ^ 32, v ^ 64, v ^ 128, 0x00, 0xff, v - 1, v + 1} {
				if !seen[x] {
					seen[x] = true
					out = append(out, x)
				}
			}
			return out
		}
		mut := append([]byte{}, s.Blob...)
		for off := k; off < len(s.Blob); off += c04ByteShards {
			for _, x := range vals(s.Blob[off]) {
				mut[off] = x
				c04Judge(c, s, mut, "single byte change @"+strconv.Itoa(off), false)
				if c.Expired() {
					return
				}
			}
			mut[off] = s.Blob[off]
		}
	}
}
