//go:build !verifsched

package props

import (
	"bytes"
	"crypto"
	"crypto/rsa"
	"crypto/x509"
	"io"
	"sync"

	"verif/gen/pegen"
	"verif/keys"
	"verif/ref/der"
	"verif/ref/refp7"
	"verif/ref/refpe"
)

// memoised deterministic signers for every fixed key
var (
	memoMu   sync.Mutex
	memoKeys = map[int]*memoSigner{}
)

func memoSignerFor(n int) crypto.Signer {
	memoMu.Lock()
	defer memoMu.Unlock()
	if s, ok := memoKeys[n]; ok {
		return s
	}
	s := &memoSigner{k: keys.K(n), m: map[string][]byte{}}
	memoKeys[n] = s
	return s
}

var _ io.Reader
var _ *rsa.PrivateKey

// spcDigest extracts the image digest from an SpcIndirectDataContent blob.
func spcDigest(sd *refp7.SignedData) []byte {
	if sd.EContent == nil || !bytes.Equal(sd.EContentType, refp7.OIDSpcIndirect) {
		return nil
	}
	c := sd.EContent.Children
	if sd.EContent.Tag != 0x30 || len(c) < 2 || c[1].Tag != 0x30 || len(c[1].Children) < 2 || c[1].Children[1].Tag != 0x04 {
		return nil
	}
	return c[1].Children[1].Val
}

// refImageValid is the statement's acceptance condition for an image and a
// certificate: some WIN_CERTIFICATE of the image holds a SignedData that is
// valid for cert (refp7) and whose SpcIndirectDataContent digest equals the
// specification digest of exactly these image bytes.
func refImageValid(img []byte, cert *x509.Certificate) (bool, string) {
	want, im, err := refpe.Digest(img)
	if err != nil {
		return false, "image ill-formed: " + err.Error()
	}
	if im.CertSize == 0 {
		return false, "no certificate table"
	}
	reason := "no valid signature"
	for _, wc := range refpe.CertTable(img, im) {
		// the SignedData is the first TLV of the entry body; bytes after it inside the entry
		// (a dwLength that includes alignment padding) do not make the signature less valid
		root, _, perr := der.ParsePrefix(wc.Body)
		if perr != nil {
			reason = "signature blob unparsable"
			continue
		}
		sd, err := refp7.FromTree(root)
		if err != nil {
			reason = "signature blob unparsable"
			continue
		}
		v := sd.Valid(cert, nil)
		if !v.OK {
			reason = v.Reason
			continue
		}
		d := spcDigest(sd)
		if d == nil || !bytes.Equal(d, want) {
			reason = "embedded digest differs from the image digest"
			continue
		}
		return true, "valid"
	}
	return false, reason
}

// peBaseLayouts are the unsigned base images used by C02/C03/C13/C15/C19.
func peBaseLayouts() []pegen.Layout {
	return []pegen.Layout{
		{PE32Plus: true, Lfanew: 0x40, Secs: []pegen.Sec{{RawSize: 8}, {RawSize: 13}}},                                       // size mod 8 = 5
		{PE32Plus: false, Lfanew: 0x48, Secs: []pegen.Sec{{RawSize: 13}, {RawSize: 8, Gap: 4}}, FileOrder: []int{1, 0}},      // PE32, out of order, gap
		{PE32Plus: true, Lfanew: 0x80, Secs: []pegen.Sec{{RawSize: 8}}, Trailing: 3, HdrSlack: 16},                           // trailing data, mod 8 = 3
		{PE32Plus: true, Lfanew: 0x40, Secs: []pegen.Sec{{RawSize: 8}, {RawSize: 0}, {RawSize: 8}}},                          // zero-size section, mod 8 = 0
		{PE32Plus: false, Lfanew: 0x40, Secs: nil, Trailing: 7},                                                              // no sections, mod 8 = 7
		{PE32Plus: true, Lfanew: 0x48, Secs: []pegen.Sec{{RawSize: 13}, {RawSize: 13}}, FileOrder: []int{1, 0}, Trailing: 1}, // mod 8 = 1
	}
}

// peLongStubLayout: the PE header lies beyond the first 64 KiB (e_lfanew is a 32-bit field).
func peLongStubLayout() pegen.Layout {
	return pegen.Layout{PE32Plus: true, Lfanew: 0x10048, Secs: []pegen.Sec{{RawSize: 13}, {RawSize: 8}}, Trailing: 3}
}

// peBigLayout is larger than io.Copy's 32 KiB chunk (several positional reads per pass).
func peBigLayout() pegen.Layout {
	return pegen.Layout{PE32Plus: true, Lfanew: 0x80, Secs: []pegen.Sec{{RawSize: 8}, {RawSize: 13, Gap: 4}}, FileOrder: []int{1, 0}, Trailing: 70001, Big: true}
}

// peChunkBoundaryLayout places the start of the second section exactly where the hashed stream
// (the file minus the 4 checksum and 8 directory-entry bytes) reaches 32768 bytes, the chunk size
// io.Copy reads with: file offset 32780 = SizeOfHeaders (408) + first section (32372).
func peChunkBoundaryLayout() pegen.Layout {
	return pegen.Layout{PE32Plus: true, Lfanew: 0x40, Secs: []pegen.Sec{{RawSize: 32372}, {RawSize: 4000}}, Trailing: 5}
}

func derMustParse(b []byte) *der.Node {
	n, err := der.Parse(b)
	if err != nil {
		panic(err)
	}
	return n
}

func sha256Sum(b []byte) []byte {
	h := crypto.SHA256.New()
	h.Write(b)
	return h.Sum(nil)
}
