//go:build !verifsched

package props

import (
	"bufio"
	"bytes"
	"fmt"
	"io"
	"os"
	"testing/iotest"
	"time"

	"github.com/foxboron/go-uefi/efi/signature"
	"github.com/foxboron/go-uefi/efi/util"

	"verif/internal/hx"
	"verif/ref/refauth"
	"verif/ref/refesl"
)

func init() {
	hx.Register(&hx.Prop{
		ID:    "C10",
		Level: "exploration",
		Rule: "full product of timestamp x CertData length x type GUID x following payload length for EFI_VARIABLE_AUTHENTICATION_2 (descriptor built by the reference writer), the same for plain WIN_CERTIFICATE (types 0x0002, 0x0EF0, 0x0EF1), " +
			"DER-shaped WIN_CERTIFICATE bodies followed by 0..8 more bytes inside dwLength, sources of every reader kind (bytes.Buffer scribbled over afterwards, bytes.Reader, plain io.Reader, bufio.Reader that is read on), values constructed through the library's own constructor, plus the .auth files shipped with the repository. Oracle per case: bytes consumed == 16+dwLength (dwLength for WIN_CERTIFICATE), payload left untouched, every field equals the reference's, " +
			"encode(decoded) == consumed bytes, decode(encode(v)) == v on the named fields. non-trivial = decode succeeded and all four checks were evaluated; distinct = distinct input bytes",
		Assumptions: []string{"reference reader/writer refauth from UEFI 2.8 sections 8.2.2/32.2.4", "inputs with dwLength < 24 (descriptor) or < 8 (WIN_CERTIFICATE) belong to C14"},
		Units:       func(tier string) []string { return []string{"auth2", "wincert", "constructed", "fixtures"} },
		Run:         c10Run,
		Bound: func(tier string) map[string]any {
			return map[string]any{"certdata_lengths": c10Lens(tier), "payload_lengths": []int{0, 1, 16, 28, 1000, 9, 6}, "payloads_starting_with_zero_bytes": true, "readers": []string{"*bytes.Reader", "*bytes.Buffer (storage scribbled over after decoding)"}, "timestamps": len(c10Times()), "type_guids": 3}
		},
		Budget: dur(2*time.Minute, 10*time.Minute),
	})
}

func c10Lens(tier string) []int {
	// every length 0..40 (all residues mod 8 and mod 16, several times), then DER/length-form and buffer-size boundaries
	var l []int
	for i := 0; i <= 40; i++ {
		l = append(l, i)
	}
	l = append(l, 255, 256, 257, 511, 512, 513, 4095, 4096, 32767, 32768, 32769, 65535, 65536)
	if tier == "thorough" {
		for i := 41; i < 255; i += 13 {
			l = append(l, i)
		}
		l = append(l, 1<<20)
	}
	return l
}

// specGUIDs are the GUIDs the UEFI specification (and the library) define: certificate types,
// signature types, variable vendors. A decoder may treat one of them specially; the layout rules
// are the same for all of them.
func specGUIDs() []refesl.GUID {
	return []refesl.GUID{
		guidPKCS7, guidRSA256,
		refesl.MkGUID(0x8BE4DF61, 0x93CA, 0x11d2, [8]byte{0xAA, 0x0D, 0x00, 0xE0, 0x98, 0x03, 0x2B, 0x8C}),
		refesl.MkGUID(0xd719b2cb, 0x3d3a, 0x4596, [8]byte{0xa3, 0xbc, 0xda, 0xd0, 0x0e, 0x67, 0x65, 0x6f}),
		refesl.MkGUID(0xc1c41626, 0x504c, 0x4092, [8]byte{0xac, 0xa9, 0x41, 0xf9, 0x36, 0x93, 0x43, 0x28}),
		refesl.MkGUID(0x3c5766e8, 0x269c, 0x4e34, [8]byte{0xaa, 0x14, 0xed, 0x77, 0x6e, 0x85, 0xb3, 0xb6}),
		refesl.MkGUID(0xe2b36190, 0x879b, 0x4a3d, [8]byte{0xad, 0x8d, 0xf2, 0xe7, 0xbb, 0xa3, 0x27, 0x84}),
		refesl.MkGUID(0x826ca512, 0xcf10, 0x4ac9, [8]byte{0xb1, 0x87, 0xbe, 0x01, 0x49, 0x66, 0x31, 0xbd}),
		refesl.MkGUID(0x67f8444f, 0x8743, 0x48f1, [8]byte{0xa3, 0x28, 0x1e, 0xaa, 0xb8, 0x73, 0x60, 0x80}),
		refesl.MkGUID(0xa5c059a1, 0x94e4, 0x4aa7, [8]byte{0x87, 0xb5, 0xab, 0x15, 0x5c, 0x2b, 0xf0, 0x72}),
		refesl.MkGUID(0x0b6e5233, 0xa65c, 0x44c9, [8]byte{0x94, 0x07, 0xd9, 0xab, 0x83, 0xbf, 0xc8, 0xbd}),
		refesl.MkGUID(0xff3e5307, 0x9fd0, 0x48c9, [8]byte{0x85, 0xf1, 0x8a, 0xd5, 0x6c, 0x70, 0x1e, 0x01}),
		refesl.MkGUID(0x093e0fae, 0xa6c4, 0x4f50, [8]byte{0x9f, 0x1b, 0xd4, 0x1e, 0x2b, 0x89, 0xc1, 0x9a}),
		refesl.MkGUID(0x3bd2a492, 0x96c0, 0x4079, [8]byte{0xb4, 0x20, 0xfc, 0xf9, 0x8e, 0xf1, 0x03, 0xed}),
		refesl.MkGUID(0x446dbf63, 0x2502, 0x4cda, [8]byte{0xbc, 0xfa, 0x24, 0x65, 0xd2, 0xb0, 0xfe, 0x9d}), // X509_SHA384
		refesl.MkGUID(0xcaa7e4cf, 0x1ee4, 0x4ef7, [8]byte{0x9c, 0x4d, 0x9b, 0x25, 0x7d, 0xb2, 0x4d, 0x21}), // X509_SHA512 (sic)
		refesl.MkGUID(0x452e8ced, 0xdfff, 0x4b8c, [8]byte{0xae, 0x01, 0x51, 0x18, 0x86, 0x2e, 0x68, 0x2c}),
		{}, // the zero GUID
	}
}

// c10SpecialTimes: values the specification singles out for an EFI_TIME field (unspecified time
// zone 0x07FF, the zone range ends, the daylight bits, the year range ends, the largest valid
// value of every field, a leap second). A decoder hands each of them back as it is.
func c10SpecialTimes() []refauth.Time {
	base := refauth.Time{Year: 2024, Month: 5, Day: 6, Hour: 7, Minute: 8, Second: 9}
	var out []refauth.Time
	for _, tz := range []int16{0x07FF, 1440, -1440, 60, -60, 1} {
		t := base
		t.TimeZone = tz
		out = append(out, t)
	}
	for _, d := range []uint8{1, 2, 3, 0x80} {
		t := base
		t.Daylight = d
		out = append(out, t)
	}
	out = append(out, refauth.Time{Year: 1900, Month: 1, Day: 1}, refauth.Time{Year: 9999, Month: 12, Day: 31, Hour: 23, Minute: 59, Second: 59, Nanosecond: 999999999},
		refauth.Time{Year: 2016, Month: 12, Day: 31, Hour: 23, Minute: 59, Second: 60}, refauth.Time{Year: 1970, Month: 1, Day: 1}, refauth.Time{Month: 1, Day: 1})
	return out
}

func c10Times() []refauth.Time {
	return []refauth.Time{
		{},
		{Year: 2024, Month: 2, Day: 29, Hour: 23, Minute: 59, Second: 58},
		{Year: 0xffff, Month: 0xff, Day: 0xff, Hour: 0xff, Minute: 0xff, Second: 0xff, Pad1: 0xff, Nanosecond: 0xffffffff, TimeZone: -1, Daylight: 0xff, Pad2: 0xff},
		{Year: 2020, Month: 1, Day: 2, Hour: 3, Minute: 4, Second: 5, Pad1: 6, Nanosecond: 0x0708090a, TimeZone: 0x0b0c, Daylight: 0x0d, Pad2: 0x0e},
	}
}

func libTime(t util.EFITime) refauth.Time {
	return refauth.Time{Year: t.Year, Month: t.Month, Day: t.Day, Hour: t.Hour, Minute: t.Minute, Second: t.Second, Pad1: t.Pad1,
		Nanosecond: t.Nanosecond, TimeZone: t.TimeZone, Daylight: t.Daylight, Pad2: t.Pad2}
}

var (
	guidPKCS7  = refesl.MkGUID(0x4aafd29d, 0x68df, 0x49ee, [8]byte{0x8a, 0xa9, 0x34, 0x7d, 0x37, 0x56, 0x65, 0xa7})
	guidRSA256 = refesl.MkGUID(0xa7717414, 0xc616, 0x4977, [8]byte{0x94, 0x20, 0x84, 0x47, 0x12, 0xa7, 0x35, 0xbf})
)

// c10Auth decodes in||payload with the library and applies the four checks.
func c10Auth(c *hx.Ctx, in, payload []byte, class string) {
	want, n, rerr := refauth.ParseAuth2(in)
	if rerr != nil || n != len(in) {
		c.Outcome("outside-domain")
		return
	}
	full := append(append([]byte{}, in...), payload...)
	r := bytes.NewReader(full)
	var v *signature.EFIVariableAuthentication2
	var err error
	var enc bytes.Buffer
	if p := hx.Try(func() {
		v, err = signature.ReadEFIVariableAuthencation2(r)
		if err == nil {
			v.Marshal(&enc)
		}
	}); p != nil {
		if want.Type != 0x0EF1 && p.Exit {
			// a descriptor with another wCertificateType is not a valid AUTHENTICATION_2; termination is C14's subject
			c.Outcome("wrong-cert-type-exit(C14)")
			return
		}
		c.Outcome("panic")
		c.Violation("C10 descriptor decode/encode ends in "+p.String(), map[string]any{"input": hx8(full), "class": class, "stack": p.Stack})
		return
	}
	if err != nil {
		if want.Revision != 0x0200 {
			c.Outcome("revision-rejected")
			return
		}
		c.Outcome("decode-error")
		c.Violation("C10 well-formed descriptor rejected ("+class+")", map[string]any{"input": hx8(full), "error": err.Error()})
		return
	}
	consumed := len(full) - r.Len()
	rest := full[len(full)-r.Len():]
	bad := func(what string, detail map[string]any) {
		if detail == nil {
			detail = map[string]any{}
		}
		detail["input"] = hx8(full)
		detail["class"] = class
		c.Outcome("violation:" + what)
		c.Violation("C10 descriptor: "+what, detail)
	}
	if consumed != 16+int(want.Length) || !bytes.Equal(rest, payload) {
		bad("consumed bytes differ from 16+dwLength", map[string]any{"consumed": consumed, "declared": 16 + int(want.Length)})
		return
	}
	got := refauth.Auth2{Time: libTime(v.Time), Length: v.AuthInfo.Header.Length, Revision: v.AuthInfo.Header.Revision,
		Type: uint16(v.AuthInfo.Header.CertType), CertType: wire(v.AuthInfo.CertType), CertData: v.AuthInfo.CertData}
	if got.Time != want.Time || got.Length != want.Length || got.Revision != want.Revision || got.Type != want.Type ||
		got.CertType != want.CertType || !bytes.Equal(got.CertData, want.CertData) {
		bad("decoded fields differ from the layout", map[string]any{"got": fmt.Sprintf("%+v", got), "want": fmt.Sprintf("%+v", want)})
		return
	}
	if !bytes.Equal(enc.Bytes(), in) {
		bad("encoding a decoded value does not reproduce the consumed bytes", map[string]any{"consumed_len": len(in), "encoded_len": enc.Len(), "encoded": hx8(enc.Bytes())})
		return
	}
	// decode(encode(v)) == v
	var v2 *signature.EFIVariableAuthentication2
	if p := hx.Try(func() { v2, err = signature.ReadEFIVariableAuthencation2(bytes.NewReader(enc.Bytes())) }); p != nil || err != nil {
		bad("re-decoding an encoded value fails", map[string]any{"error": fmt.Sprint(err, p)})
		return
	}
	if v2.Time != v.Time || v2.AuthInfo.Header.Length != v.AuthInfo.Header.Length || v2.AuthInfo.Header.Revision != v.AuthInfo.Header.Revision ||
		v2.AuthInfo.Header.CertType != v.AuthInfo.Header.CertType || v2.AuthInfo.CertType != v.AuthInfo.CertType || !bytes.Equal(v2.AuthInfo.CertData, v.AuthInfo.CertData) {
		bad("decode(encode(v)) differs from v", map[string]any{})
		return
	}
	// "decoding an encoded value reproduces the value" also for a value that was decoded and then
	// edited (a tool replacing the signature, the type or the time of a descriptor it read): each named
	// field is changed in turn, keeping the lengths, the value is encoded and decoded again
	for ei, edit := range []func(x *signature.EFIVariableAuthentication2){
		func(x *signature.EFIVariableAuthentication2) { x.AuthInfo.CertType = unwire(ownerB) },
		func(x *signature.EFIVariableAuthentication2) {
			nd := append([]byte{}, x.AuthInfo.CertData...)
			for i := range nd {
				nd[i] ^= 0x3c
			}
			x.AuthInfo.CertData = nd
		},
		func(x *signature.EFIVariableAuthentication2) { x.Time.Second ^= 1; x.Time.Year ^= 0x0101 },
	} {
		if ei == 1 && len(v.AuthInfo.CertData) == 0 {
			continue
		}
		var e2 *signature.EFIVariableAuthentication2
		var enc2 bytes.Buffer
		var d2 *signature.EFIVariableAuthentication2
		if p := hx.Try(func() {
			e2, err = signature.ReadEFIVariableAuthencation2(bytes.NewReader(full))
			if err != nil {
				return
			}
			edit(e2)
			e2.Marshal(&enc2)
			d2, err = signature.ReadEFIVariableAuthencation2(bytes.NewReader(enc2.Bytes()))
		}); p != nil || err != nil {
			bad("encoding / re-decoding an edited value fails", map[string]any{"edit": ei, "error": fmt.Sprint(err, p)})
			return
		}
		if d2.Time != e2.Time || d2.AuthInfo.CertType != e2.AuthInfo.CertType || !bytes.Equal(d2.AuthInfo.CertData, e2.AuthInfo.CertData) || d2.AuthInfo.Header.Length != e2.AuthInfo.Header.Length {
			bad("decode(encode(v)) differs from v for a decoded value whose fields were edited", map[string]any{"edit": []string{"type GUID", "certificate data (same length)", "timestamp"}[ei]})
			return
		}
	}
	// a plain io.Reader (no ReadByte, like a file or a network stream) and readers that portion the
	// data differently: exactly 16+dwLength bytes may be taken from the caller's reader
	for ri, mk := range []func(io.Reader) io.Reader{func(r io.Reader) io.Reader { return struct{ io.Reader }{r} }, iotest.OneByteReader, iotest.DataErrReader, PausingReader, LongPausingReader} {
		under := bytes.NewReader(full)
		var v4 *signature.EFIVariableAuthentication2
		if p := hx.Try(func() { v4, err = signature.ReadEFIVariableAuthencation2(mk(under)) }); p != nil || err != nil {
			bad("decoding from a plain io.Reader fails", map[string]any{"reader": ri, "error": fmt.Sprint(err, p)})
			return
		}
		rest, _ := io.ReadAll(under)
		if !bytes.Equal(rest, payload) && ri != 2 { // DataErrReader may legitimately prefetch one read
			bad("decoding from a plain io.Reader takes more than 16+dwLength bytes from it", map[string]any{"reader": ri, "left": len(rest), "payload": len(payload)})
			return
		}
		if !bytes.Equal(v4.AuthInfo.CertData, want.CertData) {
			bad("decoding from a plain io.Reader yields other certificate data", map[string]any{"reader": ri})
			return
		}
	}
	// same through a *bytes.Buffer (the reader the efivarfs layer hands to Unmarshal), whose
	// storage is overwritten afterwards: consumed length, payload and the decoded value must not change
	store := append([]byte{}, full...)
	buf := bytes.NewBuffer(store)
	var v3 signature.EFIVariableAuthentication2
	if p := hx.Try(func() { err = v3.Unmarshal(buf) }); p != nil || err != nil {
		bad("decoding from a *bytes.Buffer fails", map[string]any{"error": fmt.Sprint(err, p)})
		return
	}
	if !bytes.Equal(buf.Bytes(), payload) {
		bad("consumed bytes differ from 16+dwLength when decoding from a *bytes.Buffer", map[string]any{"rest": hx8(buf.Bytes()), "payload": hx8(payload)})
		return
	}
	for i := range store {
		store[i] ^= 0xff
	}
	buf.Reset()
	buf.Write(bytes.Repeat([]byte{0xee}, len(full)))
	var enc3 bytes.Buffer
	v3.Marshal(&enc3)
	if !bytes.Equal(enc3.Bytes(), in) {
		bad("a decoded descriptor changes when the caller reuses the buffer it was decoded from", nil)
		return
	}
	c.Outcome("ok")
	c.Nontrivial(full)
}

func c10WinCert(c *hx.Ctx, in, payload []byte, class string) {
	want, n, rerr := refauth.ParseWinCert(in)
	if rerr != nil || n != len(in) {
		c.Outcome("outside-domain")
		return
	}
	full := append(append([]byte{}, in...), payload...)
	r := bytes.NewReader(full)
	var w signature.WINCertificate
	var err error
	var enc bytes.Buffer
	if p := hx.Try(func() {
		w, err = signature.ReadWinCertificate(r)
		if err == nil {
			signature.WriteWinCertificate(&enc, &w)
		}
	}); p != nil {
		c.Outcome("panic")
		c.Violation("C10 WIN_CERTIFICATE decode/encode ends in "+p.String(), map[string]any{"input": hx8(full), "class": class, "stack": p.Stack})
		return
	}
	if err != nil {
		if want.Revision != 0x0200 {
			c.Outcome("revision-rejected")
			return
		}
		c.Violation("C10 well-formed WIN_CERTIFICATE rejected ("+class+")", map[string]any{"input": hx8(full), "error": err.Error()})
		return
	}
	consumed := len(full) - r.Len()
	bad := func(what string, detail map[string]any) {
		if detail == nil {
			detail = map[string]any{}
		}
		detail["input"] = hx8(full)
		detail["class"] = class
		c.Outcome("violation:" + what)
		c.Violation("C10 WIN_CERTIFICATE: "+what, detail)
	}
	if consumed != int(want.Length) || !bytes.Equal(full[consumed:], payload) {
		bad("consumed bytes differ from dwLength", map[string]any{"consumed": consumed, "declared": want.Length})
		return
	}
	if w.Length != want.Length || w.Revision != want.Revision || uint16(w.CertType) != want.Type || !bytes.Equal(w.Certificate, want.Body) {
		bad("decoded fields differ from the layout", map[string]any{})
		return
	}
	if !bytes.Equal(enc.Bytes(), in) {
		bad("encoding a decoded value does not reproduce the consumed bytes", map[string]any{"encoded": hx8(enc.Bytes())})
		return
	}
	// an *os.File that is not a regular file (a pipe: Stat().Size() is 0): what arrives is what counts
	if pr, pw, perr := os.Pipe(); perr == nil {
		go func() { pw.Write(full); pw.Close() }()
		var wp signature.WINCertificate
		var e2 error
		pn := hx.Try(func() { wp, e2 = signature.ReadWinCertificate(pr) })
		rest, _ := io.ReadAll(pr)
		pr.Close()
		if pn != nil || e2 != nil || !bytes.Equal(wp.Certificate, want.Body) || !bytes.Equal(rest, payload) {
			bad("decoding from a pipe (*os.File whose size is unknown) fails or differs", map[string]any{"error": fmt.Sprint(e2, pn), "rest": len(rest)})
			return
		}
	}
	// a *bufio.Reader: the decoded body must survive the reader refilling its buffer
	{
		big := append(append([]byte{}, full...), fill(9000, 0x6e)...)
		br := bufio.NewReaderSize(bytes.NewReader(big), 4096)
		var wb signature.WINCertificate
		if p := hx.Try(func() { wb, err = signature.ReadWinCertificate(br) }); p != nil || err != nil {
			bad("decoding from a *bufio.Reader fails", map[string]any{"error": fmt.Sprint(err, p)})
			return
		}
		rest, _ := io.ReadAll(br)
		if len(rest) != len(payload)+9000 || !bytes.Equal(wb.Certificate, want.Body) {
			bad("a WIN_CERTIFICATE decoded from a *bufio.Reader changes (or the stream position is wrong) once the caller reads on", map[string]any{"rest": len(rest)})
			return
		}
	}
	store := append([]byte{}, full...)
	buf := bytes.NewBuffer(store)
	var w3 signature.WINCertificate
	if p := hx.Try(func() { w3, err = signature.ReadWinCertificate(buf) }); p != nil || err != nil {
		bad("decoding from a *bytes.Buffer fails", map[string]any{"error": fmt.Sprint(err, p)})
		return
	}
	if !bytes.Equal(buf.Bytes(), payload) {
		bad("consumed bytes differ from dwLength when decoding from a *bytes.Buffer", map[string]any{"rest": hx8(buf.Bytes())})
		return
	}
	// the caller reuses the buffer: everything it ever held is overwritten (the consumed part too)
	for i := range store {
		store[i] ^= 0xff
	}
	buf.Reset()
	buf.Write(bytes.Repeat([]byte{0xee}, len(full)))
	if !bytes.Equal(w3.Certificate, want.Body) {
		bad("a decoded WIN_CERTIFICATE changes when the caller reuses the buffer it was decoded from", nil)
		return
	}
	c.Outcome("ok")
	c.Nontrivial(full)
}

func c10Run(c *hx.Ctx, tier, unit string) {
	payloads := [][]byte{{}, {0xee}, fill(16, 0x31), fill(28, 0x77), fill(1000, 0x05), make([]byte, 9), append(make([]byte, 3), 0x5a, 0, 0)}
	guids := []refesl.GUID{guidPKCS7, guidRSA256, ownerA}
	switch unit {
	case "auth2":
		for _, ts := range c10Times() {
			for _, n := range c10Lens(tier) {
				for _, g := range guids {
					for _, rev := range []uint16{0x0200} {
						for _, p := range payloads {
							if !c.Next() {
								continue
							}
							a := refauth.Auth2{Time: ts, Length: uint32(24 + n), Revision: rev, Type: 0x0EF1, CertType: g, CertData: fill(n, 0x42)}
							in := a.Bytes()
							if c.Index()%200 == 1 {
								c.Sample(map[string]any{"kind": "auth2", "certdata_len": n, "payload_len": len(p), "head": hx8(in[:40])})
							}
							c10Auth(c, in, p, "synthetic")
						}
					}
				}
			}
		}
		// certificate data that is a DER element followed by 0..8 more bytes inside dwLength (zero or
		// not), for the PKCS#7 type GUID and another one: every DER length 2..17 so that every residue
		// of the length mod 8 meets every pad
		for _, g := range []refesl.GUID{guidPKCS7, ownerA} {
			for pad := 0; pad <= 8; pad++ {
				for _, pb := range []byte{0x00, 0x5c} {
					for dl := 0; dl <= 15; dl++ {
						if !c.Next() {
							continue
						}
						cd := append(append([]byte{0x30, byte(dl)}, fill(dl, 0x02)...), bytes.Repeat([]byte{pb}, pad)...)
						c10Auth(c, refauth.Auth2{Time: c10Times()[1], Length: uint32(24 + len(cd)), Revision: 0x0200, Type: 0x0EF1, CertType: g, CertData: cd}.Bytes(), fill(9, 0x31), "synthetic, DER certificate data with trailing bytes inside dwLength")
					}
				}
			}
		}
		// the values the specification singles out for a timestamp field
		for _, ts := range c10SpecialTimes() {
			for _, n := range []int{0, 5} {
				for _, p := range [][]byte{{}, fill(28, 0x77)} {
					if !c.Next() {
						continue
					}
					c10Auth(c, refauth.Auth2{Time: ts, Length: uint32(24 + n), Revision: 0x0200, Type: 0x0EF1, CertType: guidPKCS7, CertData: fill(n, 0x42)}.Bytes(), p, "synthetic, special timestamp value")
				}
			}
		}
		// every GUID the specification defines as certificate type x every CertData length 0..600
		// (the fixed sizes the specification gives some of these types lie inside)
		for _, g := range specGUIDs() {
			for n := 0; n <= 600; n++ {
				if !c.Next() {
					continue
				}
				c10Auth(c, refauth.Auth2{Time: c10Times()[1], Length: uint32(24 + n), Revision: 0x0200, Type: 0x0EF1, CertType: g, CertData: fill(n, 0x42)}.Bytes(), fill(3, 9), "synthetic, specification GUID x length")
			}
		}
	case "wincert":
		// bodies that look like what the entry usually carries: a DER SEQUENCE, followed by 0..8
		// bytes (zero or not) that are still inside dwLength
		for _, ty := range []uint16{0x0002, 0x0EF0, 0x0EF1} {
			for pad := 0; pad <= 8; pad++ {
				for _, pb := range []byte{0x00, 0x5c} {
					// DER elements of every length 2..17 so that dwLength takes every residue mod 8 with every pad
					for dl := 0; dl <= 15; dl++ {
						if !c.Next() {
							continue
						}
						der0 := append([]byte{0x30, byte(dl)}, fill(dl, 0x02)...)
						body := append(der0, bytes.Repeat([]byte{pb}, pad)...)
						w := refauth.WinCert{Length: uint32(8 + len(body)), Revision: 0x0200, Type: ty, Body: body}
						c10WinCert(c, w.Bytes(), fill(16, 0x31), "DER body with trailing bytes inside dwLength")
					}
				}
			}
		}
		for _, ty := range []uint16{0x0002, 0x0EF0, 0x0EF1} {
			for _, n := range c10Lens(tier) {
				for _, p := range payloads {
					if !c.Next() {
						continue
					}
					w := refauth.WinCert{Length: uint32(8 + n), Revision: 0x0200, Type: ty, Body: fill(n, 0x99)}
					c10WinCert(c, w.Bytes(), p, "synthetic")
				}
			}
		}
	case "constructed":
		// the library's own construction path: constructor + fields, as SignEFIVariable does
		for _, n := range c10Lens(tier) {
			for _, ts := range c10Times() {
				if !c.Next() {
					continue
				}
				var enc bytes.Buffer
				data := fill(n, 0x21)
				var v *signature.EFIVariableAuthentication2
				if p := hx.Try(func() {
					v = signature.NewEFIVariableAuthentication2()
					v.Time = util.EFITime{Year: ts.Year, Month: ts.Month, Day: ts.Day, Hour: ts.Hour, Minute: ts.Minute, Second: ts.Second, Pad1: ts.Pad1,
						Nanosecond: ts.Nanosecond, TimeZone: ts.TimeZone, Daylight: ts.Daylight, Pad2: ts.Pad2}
					v.AuthInfo.Header.Length += uint32(len(data))
					v.AuthInfo.CertData = data
					v.Marshal(&enc)
				}); p != nil {
					c.Violation("C10 constructing/encoding a descriptor ends in "+p.String(), map[string]any{"certdata_len": n})
					continue
				}
				want := refauth.Auth2{Time: ts, Length: uint32(24 + n), Revision: 0x0200, Type: 0x0EF1, CertType: guidPKCS7, CertData: data}
				if !bytes.Equal(enc.Bytes(), want.Bytes()) {
					c.Outcome("violation:constructed-encoding")
					c.Violation("C10 descriptor: encoding of a constructed value differs from the layout", map[string]any{"encoded": hx8(enc.Bytes()), "want": hx8(want.Bytes())})
					continue
				}
				c10Auth(c, enc.Bytes(), fill(28, 0x77), "constructed")
			}
		}
		// hand-set header words: what is encoded is what the value holds (the encoder writes fields, it
		// does not substitute the current protocol constants)
		for _, rev := range []uint16{0x0000, 0x0100, 0x0200, 0x0300, 0xffff} {
			for _, ct := range []uint16{0x0EF1, 0x0002, 0x0000} {
				if !c.Next() {
					continue
				}
				var enc bytes.Buffer
				data := fill(9, 0x22)
				ts := c10Times()[0]
				if p := hx.Try(func() {
					v := signature.NewEFIVariableAuthentication2()
					v.AuthInfo.Header.Length += uint32(len(data))
					v.AuthInfo.Header.Revision = rev
					v.AuthInfo.Header.CertType = signature.WINCertType(ct)
					v.AuthInfo.CertData = data
					v.Time = util.EFITime{Year: ts.Year, Month: ts.Month, Day: ts.Day, Hour: ts.Hour, Minute: ts.Minute, Second: ts.Second, Pad1: ts.Pad1,
						Nanosecond: ts.Nanosecond, TimeZone: ts.TimeZone, Daylight: ts.Daylight, Pad2: ts.Pad2}
					v.Marshal(&enc)
				}); p != nil {
					c.Violation("C10 constructing/encoding a descriptor ends in "+p.String(), map[string]any{"revision": rev, "type": ct})
					continue
				}
				want := refauth.Auth2{Time: ts, Length: uint32(24 + len(data)), Revision: rev, Type: ct, CertType: guidPKCS7, CertData: data}
				if !bytes.Equal(enc.Bytes(), want.Bytes()) {
					c.Outcome("violation:constructed-encoding")
					c.Violation("C10 descriptor: encoding of a constructed value differs from the fields it holds", map[string]any{"revision": rev, "type": ct, "encoded": hx8(enc.Bytes()), "want": hx8(want.Bytes())})
					continue
				}
				c.Outcome("ok")
				c.Nontrivial(enc.Bytes())
			}
		}
	case "fixtures":
		for _, f := range []string{"/repo/tests/data/signatures/varsign/PK.auth", "/repo/tests/data/signatures/varsign/db.auth", "/repo/tests/data/signatures/varsign/KEK.auth",
			"/repo/tests/ovmf/keys/PK/PK.auth", "/repo/tests/ovmf/keys/db/db.auth", "/repo/tests/ovmf/keys/KEK/KEK.auth"} {
			b, err := os.ReadFile(f)
			if err != nil {
				c.Note("fixture %s unreadable: %v", f, err)
				continue
			}
			_, n, err := refauth.ParseAuth2(b)
			if err != nil {
				c.Note("fixture %s not a descriptor per reference: %v", f, err)
				continue
			}
			if !c.Next() {
				continue
			}
			c.Sample(map[string]any{"kind": "fixture", "file": f, "descriptor_len": n, "payload_len": len(b) - n})
			c10Auth(c, b[:n], b[n:], "fixture")
		}
	}
}
