//go:build !verifsched

package props

import (
	"bytes"
	"crypto"
	"crypto/sha256"
	"crypto/x509"
	"errors"
	"fmt"
	"io"
	"path"
	"strings"
	"time"

	"github.com/foxboron/go-uefi/authenticode"
	"github.com/foxboron/go-uefi/efi"
	"github.com/foxboron/go-uefi/efi/attributes"
	efifs "github.com/foxboron/go-uefi/efi/fs"
	"github.com/foxboron/go-uefi/efi/signature"
	"github.com/foxboron/go-uefi/efivar"
	"github.com/foxboron/go-uefi/efivarfs"
	"github.com/foxboron/go-uefi/efivarfs/fswrapper"
	"github.com/foxboron/go-uefi/pkcs7"

	"verif/gen/pegen"
	"verif/internal/hx"
	"verif/internal/recfs"
	"verif/keys"
	"verif/ref/refauth"
	"verif/ref/refesl"
	"verif/ref/refp7"
	"verif/ref/refpe"
	"verif/shim/vtime"
)

var errInjected = errors.New("injected dependency failure")

// ---- fault-injecting dependencies ----

// faultPlan decides which dependency calls fail. Calls are numbered from 1 in
// the order the operation issues them (all seams share one counter).
type faultPlan struct {
	calls   int
	failAt  map[int]string // call index -> kind
	from    int            // persistent: every call >= from fails (0 = off)
	fromKnd string
	log     []string
	// effective: index of the first call at which a fault was really delivered
	// (a kind that does not apply to the call, e.g. "short" at open, delivers nothing)
	effective int
	// disarmed: the dependency has recovered; later calls are counted but never fail
	disarmed bool
}

func (p *faultPlan) hit() {
	if p.effective == 0 {
		p.effective = p.calls
	}
}

func (p *faultPlan) next(op string) string {
	p.calls++
	p.log = append(p.log, op)
	if p.disarmed {
		return ""
	}
	if p.from > 0 && p.calls >= p.from {
		return p.fromKnd
	}
	return p.failAt[p.calls]
}

type faultSigner struct {
	inner crypto.Signer
	plan  *faultPlan
}

func (s *faultSigner) Public() crypto.PublicKey { return s.inner.Public() }
func (s *faultSigner) Sign(r io.Reader, d []byte, o crypto.SignerOpts) ([]byte, error) {
	if k := s.plan.next("signer.Sign"); k != "" {
		s.plan.hit()
		return nil, errInjected
	}
	return s.inner.Sign(r, d, o)
}

type faultReaderAt struct {
	b    []byte
	plan *faultPlan
	// parsed: Parse has returned. While Parse runs, an early end of data simply presents a
	// shorter file (Parse learns the length by reading to EOF); afterwards it is a failure.
	parsed bool
}

func (f *faultReaderAt) ReadAt(p []byte, off int64) (int, error) {
	switch f.plan.next("reader.ReadAt") {
	case "err":
		f.plan.hit()
		return 0, errInjected
	case "err-wrapping-eof": // a real failure whose error wraps io.EOF (errors.Is(err, io.EOF) is true, err == io.EOF is not)
		f.plan.hit()
		return 0, fmt.Errorf("read %d bytes at %d: connection lost: %w", len(p), off, io.EOF)
	case "unexpected-eof":
		f.plan.hit()
		n := 0
		if off < int64(len(f.b)) {
			n = copy(p[:len(p)/2], f.b[off:])
		}
		return n, io.ErrUnexpectedEOF
	case "err-with-full-count": // all bytes asked for are delivered, together with a (non-EOF) error
		if off+int64(len(p)) > int64(len(f.b)) || len(p) == 0 {
			break
		}
		f.plan.hit()
		return copy(p, f.b[off:]), errInjected
	case "early-eof": // the data ends before the place it ended when the image was parsed
		if off >= int64(len(f.b)) || len(p) == 0 || !f.parsed {
			break // a genuine end of data, or the length is still being learnt: nothing to inject
		}
		f.plan.hit()
		return copy(p[:len(p)/2], f.b[off:]), io.EOF
	}
	if off >= int64(len(f.b)) {
		return 0, io.EOF
	}
	n := copy(p, f.b[off:])
	if n < len(p) {
		return n, io.EOF
	}
	return n, nil
}

type faultReader struct {
	r    io.Reader
	plan *faultPlan
}

func (f *faultReader) Read(p []byte) (int, error) {
	switch f.plan.next("reader.Read") {
	case "":
		return f.r.Read(p)
	case "unexpected-eof": // some data and an error in the same call
		f.plan.hit()
		n, _ := f.r.Read(p[:(len(p)+1)/2])
		return n, io.ErrUnexpectedEOF
	case "err-wrapping-eof":
		f.plan.hit()
		return 0, fmt.Errorf("stream reset: %w", io.EOF)
	case "short": // legal: fewer bytes than asked for, no error
		if len(p) <= 1 {
			return f.r.Read(p)
		}
		f.plan.hit()
		return f.r.Read(p[:1])
	}
	f.plan.hit()
	return 0, errInjected
}

// ---- operations ----

// c15Result is what an operation observably produced.
type c15Result struct {
	err    error
	value  string // canonical observable value (digest hex, blob validity, variable bytes...)
	side   string // observable side effects (filesystem writes / created files / object state)
	noSucc bool   // the operation has no error return and signalled failure by its value (Hash -> nil)
}

type c15Op struct {
	name  string
	kinds []string // fault kinds applicable to the seams this operation uses
	run   func(plan *faultPlan) c15Result
}

func c15FsPlan(rec *recfs.Fs, plan *faultPlan) {
	rec.Fault = func(k int, op string) string {
		kd := plan.next("fs." + op)
		if kd == "" {
			return ""
		}
		switch {
		case kd == "short" && (op == "f.Write" || op == "f.Read"):
			plan.hit()
			return "short"
		case kd == "short":
			return "" // short counts only exist for read/write
		case kd == "unexpected-eof":
			return ""
		case kd == "eof": // a read returning (0, io.EOF) before the size Stat announced is reached
			if op != "f.Read" {
				return ""
			}
			plan.hit()
			return "eof"
		case kd == "enoent" || kd == "notexist":
			// "does not exist" from an operation on an open file: a failure like any other. (From open
			// itself it is the legitimate answer "no such variable" and not a fault: not injected there.)
			if !strings.HasPrefix(op, "f.") {
				return ""
			}
			plan.hit()
			return kd
		case kd == "eagain" || kd == "eintr": // errnos the operating system classes as temporary / interrupted
			plan.hit()
			return kd
		}
		plan.hit()
		return "err"
	}
}

func fsSide(rec *recfs.Fs) string {
	var w []string
	for _, e := range rec.Events {
		if e.Op == "f.Write" || e.Op == "f.WriteAt" || e.Op == "f.WriteString" {
			w = append(w, fmt.Sprintf("write(%s,%d bytes)", path.Base(e.Name), len(e.Data)))
		}
	}
	return strings.Join(w, ";")
}

func c15Image() []byte {
	return pegen.Build(pegen.Layout{PE32Plus: true, Lfanew: 0x40, Secs: []pegen.Sec{{RawSize: 8}, {RawSize: 13}}, Trailing: 3})
}

func c15SignedImage() []byte {
	p, err := authenticode.Parse(bytes.NewReader(c15Image()))
	if err != nil {
		panic(err)
	}
	if _, err := p.Sign(memoSignerFor(1), keys.C(1)); err != nil {
		panic(err)
	}
	return p.Bytes()
}

const c15NegativeOp = "authenticode.Parse + Verify (reader fault; image signed by the right key over digests of incomplete readings: must never verify)"

func c15UnverifiableImage() []byte {
	img := c15Image()
	p, err := authenticode.Parse(bytes.NewReader(img))
	if err != nil {
		panic(err)
	}
	im, err := refpe.Parse(img)
	if err != nil {
		panic(err)
	}
	rs := im.HashedRanges()
	partial := func(n int) []byte {
		h := sha256.New()
		for _, r := range rs[:n] {
			h.Write(img[r.From:r.To])
		}
		return h.Sum(nil)
	}
	for _, d := range [][]byte{{}, partial(0), partial(1), partial(len(rs) - 1), make([]byte, 32)} {
		content, err := authenticode.CreateSpcIndirectDataContent(d, crypto.SHA256)
		if err != nil {
			panic(err)
		}
		sig, err := pkcs7.SignPKCS7(memoSignerFor(1), keys.C(1), authenticode.OIDSpcIndirectDataContent, content)
		if err != nil {
			panic(err)
		}
		if err := p.AppendSignature(sig); err != nil {
			panic(err)
		}
	}
	return p.Bytes()
}

func c15DB() (*signature.SignatureDatabase, []byte) {
	enc := refesl.Encode([]refesl.List{refesl.Mk(refesl.SHA256, 48, refesl.Entry{Owner: ownerA, Data: fill(32, 1)}, refesl.Entry{Owner: ownerB, Data: fill(32, 2)})})
	db, err := signature.ReadSignatureDatabase(bytes.NewReader(enc))
	if err != nil {
		panic(err)
	}
	return &db, enc
}

func c15Ops() []c15Op {
	cert := keys.C(1)
	content := []byte("content to sign")
	img := c15Image()
	signed := c15SignedImage()
	sigKinds := []string{"err"}
	fsKinds := []string{"err", "short", "eagain", "eintr"}
	rdKinds := []string{"err", "unexpected-eof", "early-eof", "err-wrapping-eof", "err-with-full-count"}
	blobValue := func(b []byte, det []byte) string {
		if v := refp7.ParseAndValid(b, cert, det); !v.OK {
			return "INVALID-SIGNATURE: " + v.Reason
		}
		return "valid signature"
	}
	var ops []c15Op
	ops = append(ops, c15Op{"pkcs7.SignPKCS7", sigKinds, func(plan *faultPlan) c15Result {
		b, err := pkcs7.SignPKCS7(&faultSigner{memoSignerFor(1), plan}, cert, pkcs7.OIDData, content)
		if err != nil {
			return c15Result{err: err}
		}
		return c15Result{value: blobValue(b, content)}
	}})
	ops = append(ops, c15Op{"authenticode.SignAuthenticode", append(append([]string{}, sigKinds...), "err", "err-wrapping-eof"), func(plan *faultPlan) c15Result {
		b, err := authenticode.SignAuthenticode(&faultSigner{memoSignerFor(1), plan}, cert, &faultReader{bytes.NewReader(content), plan}, crypto.SHA256)
		if err != nil {
			return c15Result{err: err}
		}
		return c15Result{value: blobValue(b, nil)}
	}})
	ops = append(ops, c15Op{"signature.SignEFIVariable", sigKinds, func(plan *faultPlan) c15Result {
		db, enc := c15DB()
		_, m, err := signature.SignEFIVariable(efivar.Db, db, &faultSigner{memoSignerFor(1), plan}, cert)
		if err != nil {
			return c15Result{err: err}
		}
		out := m.Bytes()
		if !bytes.HasSuffix(out, enc) {
			return c15Result{value: "update does not end with the payload"}
		}
		return c15Result{value: "update produced"}
	}})
	// image object: parse with healthy reader, sign with faulty signer
	ops = append(ops, c15Op{"PECOFFBinary.Sign (signer fault)", sigKinds, func(plan *faultPlan) c15Result {
		p, err := authenticode.Parse(bytes.NewReader(img))
		if err != nil {
			return c15Result{err: err}
		}
		before := string(p.Bytes())
		nb, _ := p.Signatures()
		hb := p.Hash(crypto.SHA256)
		_, err = p.Sign(&faultSigner{memoSignerFor(1), plan}, cert)
		after := string(p.Bytes())
		na, _ := p.Signatures()
		if err != nil {
			side := ""
			if before != after || len(nb) != len(na) || !bytes.Equal(hb, p.Hash(crypto.SHA256)) {
				side = "IMAGE OBJECT CHANGED BY A FAILED SIGN"
			}
			// the object is still usable: a second, healthy signing succeeds and verifies
			plan.disarmed = true
			if _, err2 := p.Sign(memoSignerFor(1), cert); err2 != nil {
				side = "IMAGE OBJECT CHANGED BY A FAILED SIGN"
			} else if ok, _ := p.Verify(cert); !ok {
				side = "IMAGE OBJECT CHANGED BY A FAILED SIGN"
			}
			return c15Result{err: err, side: side}
		}
		ok, verr := p.Verify(cert)
		return c15Result{value: fmt.Sprintf("signed; verifies=%v %v; signatures=%d", ok, verr, len(na))}
	}})
	// image operations over a faulty reader
	var curPlan *faultPlan
	imgOp := func(name string, data []byte, f func(p *authenticode.PECOFFBinary) c15Result) c15Op {
		return c15Op{name, rdKinds, func(plan *faultPlan) c15Result {
			// faults are armed for the whole operation including Parse
			fr := &faultReaderAt{b: data, plan: plan}
			curPlan = plan
			p, err := authenticode.Parse(fr)
			if err != nil {
				return c15Result{err: err}
			}
			fr.parsed = true
			return f(p)
		}}
	}
	ops = append(ops, imgOp("authenticode.Parse + Hash (reader fault)", img, func(p *authenticode.PECOFFBinary) c15Result {
		d := p.Hash(crypto.SHA256)
		if d == nil {
			return c15Result{noSucc: true, err: errors.New("no digest")}
		}
		return c15Result{value: "digest " + hx8(d)}
	}))
	bigImg := pegen.Build(pegen.Layout{PE32Plus: true, Lfanew: 0x80, Secs: []pegen.Sec{{RawSize: 8}, {RawSize: 13}}, Trailing: 70001, Big: true})
	ops = append(ops, imgOp("authenticode.Parse + Hash (reader fault, 110 KB image: several chunks)", bigImg, func(p *authenticode.PECOFFBinary) c15Result {
		d := p.Hash(crypto.SHA256)
		if d == nil {
			return c15Result{noSucc: true, err: errors.New("no digest")}
		}
		return c15Result{value: "digest " + hx8(d)}
	}))
	hugeSec := pegen.Build(pegen.Layout{PE32Plus: true, Lfanew: 0x40, Secs: []pegen.Sec{{RawSize: 200000}, {RawSize: 13}}, Trailing: 5})
	ops = append(ops, imgOp("authenticode.Parse + Hash (reader fault, 200 KB section: reads that lie inside one hashed range)", hugeSec, func(p *authenticode.PECOFFBinary) c15Result {
		d := p.Hash(crypto.SHA256)
		if d == nil {
			return c15Result{noSucc: true, err: errors.New("no digest")}
		}
		return c15Result{value: "digest " + hx8(d)}
	}))
	ops = append(ops, imgOp("authenticode.Parse + Verify (reader fault)", signed, func(p *authenticode.PECOFFBinary) c15Result {
		ok, err := p.Verify(cert)
		if err != nil {
			return c15Result{err: err}
		}
		return c15Result{value: fmt.Sprintf("verify=%v", ok)}
	}))
	// an image that does NOT verify: its signatures are made by the right key, but over what a
	// hashing that lost its reader would come up with (no digest at all, the digest of no bytes, of
	// the bytes before the first or the last hashed range, zeros). No reader failure may turn it
	// into an image that verifies.
	ops = append(ops, imgOp(c15NegativeOp, c15UnverifiableImage(), func(p *authenticode.PECOFFBinary) c15Result {
		ok, err := p.Verify(cert)
		if ok {
			return c15Result{value: "verify=true"}
		}
		if err == nil {
			err = errors.New("verify=false")
		}
		return c15Result{err: err}
	}))
	ops = append(ops, imgOp("authenticode.Parse + Sign (reader fault)", img, func(p *authenticode.PECOFFBinary) c15Result {
		// the serialised object before and after, observed with the faults switched off
		observe := func() string {
			curPlan.disarmed = true
			defer func() { curPlan.disarmed = false }()
			n, _ := p.Signatures()
			return fmt.Sprintf("%d signatures; %x", len(n), sha256Sum(p.Bytes()))
		}
		before := observe()
		sig, err := p.Sign(memoSignerFor(1), cert)
		if err != nil {
			side := ""
			if observe() != before {
				side = "IMAGE OBJECT CHANGED BY A FAILED SIGN"
			}
			return c15Result{err: err, side: side}
		}
		// what did the signature commit to?
		sd, perr := refp7.Parse(sig)
		if perr != nil {
			return c15Result{value: "unparsable signature"}
		}
		return c15Result{value: "signed digest " + hx8(spcDigest(sd))}
	}))
	// the same image object after the reader recovered: step 1 runs under faults, step 2 healthy
	type step struct {
		name string
		f    func(p *authenticode.PECOFFBinary) (string, error)
	}
	steps := []step{
		{"Hash", func(p *authenticode.PECOFFBinary) (string, error) {
			d := p.Hash(crypto.SHA256)
			if d == nil {
				return "", errors.New("no digest")
			}
			return "digest " + hx8(d), nil
		}},
		{"Verify", func(p *authenticode.PECOFFBinary) (string, error) {
			ok, err := p.Verify(cert)
			return fmt.Sprintf("verify=%v", ok), err
		}},
		{"Sign", func(p *authenticode.PECOFFBinary) (string, error) {
			sig, err := p.Sign(memoSignerFor(1), cert)
			if err != nil {
				return "", err
			}
			sd, perr := refp7.Parse(sig)
			if perr != nil {
				return "unparsable signature", nil
			}
			return "signed digest " + hx8(spcDigest(sd)), nil
		}},
	}
	for _, s1 := range steps {
		for _, s2 := range steps {
			s1, s2 := s1, s2
			ops = append(ops, c15Op{name: "one image object: " + s1.name + " under reader faults, then " + s2.name + " after the reader recovered", kinds: rdKinds, run: func(plan *faultPlan) c15Result {
				plan.disarmed = true
				fr := &faultReaderAt{b: signed, plan: plan}
				p, err := authenticode.Parse(fr)
				if err != nil {
					return c15Result{err: err}
				}
				fr.parsed = true
				plan.disarmed = false
				s1.f(p)
				plan.disarmed = true
				v, err := s2.f(p)
				if s1.name == "Sign" && s2.name == "Sign" {
					v = "second signing done" // the signed digest is judged by the other combinations
				}
				return c15Result{err: err, value: v}
			}})
		}
	}
	// decoders over a caller-supplied io.Reader
	twoLists := refesl.Encode([]refesl.List{
		refesl.Mk(refesl.SHA256, 48, refesl.Entry{Owner: ownerA, Data: fill(32, 1)}, refesl.Entry{Owner: ownerB, Data: fill(32, 2)}),
		refesl.Mk(refesl.X509, 16+70, refesl.Entry{Owner: ownerB, Data: fill(70, 9)}),
		refesl.Mk(refesl.SHA256, 48, refesl.Entry{Owner: ownerA, Data: fill(32, 3)})})
	rdOp := func(name string, data []byte, f func(r io.Reader) (string, error)) c15Op {
		return c15Op{name: name, kinds: []string{"err", "unexpected-eof", "short"}, run: func(plan *faultPlan) c15Result {
			v, err := f(&faultReader{bytes.NewReader(data), plan})
			return c15Result{err: err, value: v}
		}}
	}
	ops = append(ops, rdOp("signature.ReadSignatureDatabase (reader fault)", twoLists, func(r io.Reader) (string, error) {
		db, err := signature.ReadSignatureDatabase(r)
		if err != nil {
			return "", err
		}
		return "db " + hx8(db.Bytes()), nil
	}))
	ops = append(ops, rdOp("signature.ReadSignatureList (reader fault)", twoLists, func(r io.Reader) (string, error) {
		l, err := signature.ReadSignatureList(r)
		if err != nil {
			return "", err
		}
		return "list " + hx8(l.Bytes()), nil
	}))
	wc := append(refauth.WinCert{Length: 8 + 37, Revision: 0x0200, Type: 0x0002, Body: fill(37, 5)}.Bytes(), fill(11, 0x77)...)
	ops = append(ops, rdOp("signature.ReadWinCertificate (reader fault)", wc, func(r io.Reader) (string, error) {
		w, err := signature.ReadWinCertificate(r)
		if err != nil {
			return "", err
		}
		return fmt.Sprintf("wincert %d %#x %#x %s", w.Length, w.Revision, uint16(w.CertType), hx8(w.Certificate)), nil
	}))
	// filesystem: writes
	fsWrite := func(name string, f func(rec *recfs.Fs, plan *faultPlan) error) c15Op {
		return c15Op{name, fsKinds, func(plan *faultPlan) c15Result {
			rec := recfs.New()
			c15FsPlan(rec, plan)
			err := f(rec, plan)
			stored := ""
			if err == nil {
				// what is on the filesystem now?
				var names []string
				for _, e := range rec.Events {
					if e.Op == "OpenFile" {
						names = append(names, e.Name)
					}
				}
				for _, n := range names {
					if fh, oerr := rec.Inner.Open(n); oerr == nil {
						b, _ := io.ReadAll(fh)
						fh.Close()
						stored = hx8(b)
					}
				}
			}
			return c15Result{err: err, value: "stored " + stored, side: fsSide(rec)}
		}}
	}
	ops = append(ops, fsWrite("EFIFS.WriteVar", func(rec *recfs.Fs, plan *faultPlan) error {
		fw := fswrapper.NewMemoryWrapper()
		fw.SetFS(rec)
		db, _ := c15DB()
		return (&efivarfs.EFIFS{FSWrapper: fw}).WriteVar(efivar.Db, db)
	}))
	// an empty value (how db / dbx are cleared): the file content is the four attribute bytes only
	ops = append(ops, fsWrite("EFIFS.WriteVar (empty value)", func(rec *recfs.Fs, plan *faultPlan) error {
		fw := fswrapper.NewMemoryWrapper()
		fw.SetFS(rec)
		return (&efivarfs.EFIFS{FSWrapper: fw}).WriteVar(efivar.Db, signature.NewSignatureDatabase())
	}))
	ops = append(ops, fsWrite("EFIFS.WriteVar (one-byte value)", func(rec *recfs.Fs, plan *faultPlan) error {
		fw := fswrapper.NewMemoryWrapper()
		fw.SetFS(rec)
		return (&efivarfs.EFIFS{FSWrapper: fw}).WriteVar(efivar.LoaderConfigTimeout, rawval([]byte{0x31}))
	}))
	ops = append(ops, fsWrite("attributes.WriteEfivars (legacy, empty value)", func(rec *recfs.Fs, plan *faultPlan) error {
		efifs.SetFS(rec)
		return attributes.WriteEfivars("db", efivar.Db.Attributes, nil)
	}))
	ops = append(ops, fsWrite("attributes.WriteEfivars (legacy)", func(rec *recfs.Fs, plan *faultPlan) error {
		efifs.SetFS(rec)
		_, enc := c15DB()
		return attributes.WriteEfivars("db", efivar.Db.Attributes, enc)
	}))
	ops = append(ops, c15Op{"Efivarfs.WriteSignedUpdate", []string{"err", "short"}, func(plan *faultPlan) c15Result {
		rec := recfs.New()
		c15FsPlan(rec, plan)
		fw := fswrapper.NewMemoryWrapper()
		fw.SetFS(rec)
		db, _ := c15DB()
		e := efivarfs.Open(&efivarfs.EFIFS{FSWrapper: fw})
		err := e.WriteSignedUpdate(efivar.Db, db, &faultSigner{memoSignerFor(1), plan}, cert)
		side := fsSide(rec)
		return c15Result{err: err, value: "written " + side, side: side}
	}})
	// filesystem: reads
	// variable readers know how long the file is (Stat): a read that ends early is a failure for them
	fsReadKinds := append(append([]string{}, fsKinds...), "eof", "enoent", "notexist")
	fsRead := func(name string, f func(rec *recfs.Fs) (string, error)) c15Op {
		kinds := fsReadKinds
		if name == "FSWrapper.ReadFile" {
			kinds = fsKinds // the plain helper reads to the end of whatever is there
		}
		return c15Op{name, kinds, func(plan *faultPlan) c15Result {
			rec := recfs.New()
			_, enc := c15DB()
			for _, v := range []efivar.Efivar{efivar.Db, efivar.Dbx, efivar.PK, efivar.KEK} {
				fh, _ := rec.Inner.Create(path.Join("/sys/firmware/efi/efivars", v.Name+"-"+refFormat(*v.GUID)))
				fh.Write(append([]byte{0x27, 0, 0, 0}, enc...))
				fh.Close()
			}
			c15FsPlan(rec, plan)
			v, err := f(rec)
			return c15Result{err: err, value: v}
		}}
	}
	ops = append(ops, fsRead("EFIFS.GetVar", func(rec *recfs.Fs) (string, error) {
		fw := fswrapper.NewMemoryWrapper()
		fw.SetFS(rec)
		var s spy
		err := (&efivarfs.EFIFS{FSWrapper: fw}).GetVar(efivar.Db, &s)
		return "value " + hx8(s.got), err
	}))
	ops = append(ops, fsRead("Efivarfs.Getdb", func(rec *recfs.Fs) (string, error) {
		fw := fswrapper.NewMemoryWrapper()
		fw.SetFS(rec)
		db, err := efivarfs.Open(&efivarfs.EFIFS{FSWrapper: fw}).Getdb()
		if err != nil {
			return "", err
		}
		return "db " + hx8(db.Bytes()), nil
	}))
	// the plain file helpers of the wrapper (twins of the variable operations). A short count
	// without an error is outside io.Writer's contract and only judged for the variable writers,
	// which guard against it explicitly; here: errors at create / write / close / open / read.
	ops = append(ops, c15Op{"FSWrapper.WriteFile", []string{"err", "eagain"}, func(plan *faultPlan) c15Result {
		rec := recfs.New()
		c15FsPlan(rec, plan)
		fw := fswrapper.NewMemoryWrapper()
		fw.SetFS(rec)
		data := fill(300, 0x44)
		err := fw.WriteFile("/sys/firmware/efi/efivars/file", data, 0644)
		stored := ""
		if fh, oerr := rec.Inner.Open("/sys/firmware/efi/efivars/file"); oerr == nil {
			b, _ := io.ReadAll(fh)
			fh.Close()
			stored = hx8(b)
		}
		return c15Result{err: err, value: "stored " + stored}
	}})
	ops = append(ops, fsRead("FSWrapper.ReadFile", func(rec *recfs.Fs) (string, error) {
		fw := fswrapper.NewMemoryWrapper()
		fw.SetFS(rec)
		b, err := fw.ReadFile(path.Join("/sys/firmware/efi/efivars", "db-"+refFormat(*efivar.Db.GUID)))
		if err != nil {
			return "", err
		}
		return "file " + hx8(b), nil
	}))
	ops = append(ops, fsRead("FSWrapper.ReadEfivarsWithGuid", func(rec *recfs.Fs) (string, error) {
		fw := fswrapper.NewMemoryWrapper()
		fw.SetFS(rec)
		at, buf, err := fw.ReadEfivarsWithGuid("db", *efivar.Db.GUID)
		if err != nil {
			return "", err
		}
		return fmt.Sprintf("attrs %#x value %s", uint32(at), hx8(buf.Bytes())), nil
	}))
	ops = append(ops, fsRead("attributes.ReadEfivars (legacy)", func(rec *recfs.Fs) (string, error) {
		efifs.SetFS(rec)
		at, buf, err := attributes.ReadEfivars("db")
		if err != nil {
			return "", err
		}
		return fmt.Sprintf("attrs %#x value %s", uint32(at), hx8(buf.Bytes())), nil
	}))
	// the package-level typed accessors (the twins of Efivarfs.GetPK/.../Getdbx)
	for _, acc := range []struct {
		name string
		f    func() (*signature.SignatureDatabase, error)
	}{{"efi.Getdb (legacy typed accessor)", efi.Getdb}, {"efi.Getdbx (legacy typed accessor)", efi.Getdbx}, {"efi.GetPK (legacy typed accessor)", efi.GetPK}, {"efi.GetKEK (legacy typed accessor)", efi.GetKEK}} {
		acc := acc
		ops = append(ops, fsRead(acc.name, func(rec *recfs.Fs) (string, error) {
			efifs.SetFS(rec)
			db, err := acc.f()
			if err != nil {
				return "", err
			}
			return "database " + hx8(db.Bytes()), nil
		}))
	}
	return ops
}

func init() {
	hx.Register(&hx.Prop{
		ID:    "C15",
		Level: "fault_enumeration",
		Rule: "for each operation (sign blob / Authenticode digest / variable update; sign an image object; parse+hash, parse+verify, parse+sign over a caller-supplied reader; write variable via object and legacy API; signed update; read variable via GetVar, typed accessor and legacy API; decode a signature database / list / WIN_CERTIFICATE from a caller-supplied io.Reader; on one image object each of Hash/Verify/Sign under reader faults followed by each of Hash/Verify/Sign after the reader recovered) the dependency-call sequence is recorded fault-free, then re-run with the k-th call failing for every k and every fault kind " +
			"(signer: error; filesystem: error at open/stat/read/write/close, short write, short read; reader: error, partial read with io.ErrUnexpectedEOF, legal one-byte short reads), then with every pair of calls failing (deviation bound 2, sequences up to 60 calls), then with every call from k on failing. " +
			"oracle: no panic/exit; an error (or nil digest) is returned whenever a call the result depends on failed: always for signer and filesystem faults and for persistent reader faults; for a transient reader fault the operation may succeed only with exactly the fault-free value; " +
			"a failed Sign leaves Bytes()/Signatures()/Hash() of the image object unchanged and the object signable; after every faulted run the same operation with healthy dependencies must give the fault-free result again (nothing left behind in the library); a failed signed update issues no Write. non-trivial = a fault was injected and observed by the operation; distinct = distinct (operation, fault positions, kinds)",
		Assumptions: []string{"faults are injected at the caller-supplied seams only (crypto.Signer, afero.Fs, io.ReaderAt/io.Reader)", "a close error on the read path is not judged; a short read (n<len, nil error) is legal for io.Reader and must yield the right value or an error", "built with the log shim so that process termination is an outcome"},
		Units: func(tier string) []string {
			var u []string
			for _, o := range c15Ops() {
				u = append(u, "op#"+o.name)
			}
			// the signing operations again under a clock that has moved on by a second at every reading
			for _, n := range c15ClockOps {
				u = append(u, "op#"+n+"#advancing-clock")
			}
			return u
		},
		Run:    c15Run,
		Budget: dur(4*time.Minute, 20*time.Minute),
	})
}

var c15ClockOps = []string{"pkcs7.SignPKCS7", "authenticode.SignAuthenticode", "signature.SignEFIVariable", "PECOFFBinary.Sign (signer fault)", "Efivarfs.WriteSignedUpdate"}

func c15Run(c *hx.Ctx, tier, unit string) {
	t0 := time.Date(2024, 5, 6, 7, 8, 9, 0, time.UTC)
	vtime.Set(t0)
	name := strings.TrimPrefix(unit, "op#")
	stepping := strings.HasSuffix(name, "#advancing-clock")
	name = strings.TrimSuffix(name, "#advancing-clock")
	// clock(): called before every run of the operation; the advancing clock starts over, so that
	// runs reading the clock equally often see the same instants
	clock := func() {
		if stepping {
			vtime.SetStepping(t0, time.Second)
		}
	}
	var op *c15Op
	for _, o := range c15Ops() {
		if o.name == name {
			oo := o
			op = &oo
		}
	}
	if op == nil {
		return
	}
	// fault-free run: learn the call sequence and the reference value
	base := &faultPlan{failAt: map[int]string{}}
	var ref c15Result
	clock()
	if op.name == c15NegativeOp {
		var r0 c15Result
		if pn := hx.Try(func() { r0 = op.run(base) }); pn != nil || r0.err == nil {
			c.Violation("C15 "+op.name+": verifies (or ends abnormally) without any fault", map[string]any{"value": r0.value, "panic": fmt.Sprint(pn)})
			return
		}
		n := base.calls
		c.Count("dependency_calls", uint64(n))
		c.Sample(map[string]any{"operation": op.name, "dependency_calls": n, "sequence": strings.Join(compress(base.log), " "), "fault_free_result": r0.err.Error()})
		try := func(plan *faultPlan, desc string) {
			if !c.Next() {
				return
			}
			var r c15Result
			pn := hx.Try(func() { r = op.run(plan) })
			detail := map[string]any{"operation": op.name, "faults": desc, "calls_made": plan.calls, "fault_free_result": r0.err.Error()}
			switch {
			case pn != nil:
				c.Outcome("terminates")
				detail["stack"] = pn.Stack
				c.Violation("C15 "+op.name+": ends in "+pn.String(), detail)
			case r.err == nil:
				c.Outcome("violation")
				c.Violation("C15 an image that does not verify with a healthy reader verifies when the reader fails", detail)
			default:
				c.Outcome("error-returned")
				if plan.effective >= 1 {
					c.Nontrivial([]byte(op.name), []byte(desc))
				}
			}
		}
		for k := 1; k <= n; k++ {
			for _, kd := range op.kinds {
				try(&faultPlan{failAt: map[int]string{k: kd}}, fmt.Sprintf("call %d: %s", k, kd))
				try(&faultPlan{failAt: map[int]string{}, from: k, fromKnd: kd}, fmt.Sprintf("every call from %d on: %s", k, kd))
			}
		}
		return
	}
	if pn := hx.Try(func() { ref = op.run(base) }); pn != nil || ref.err != nil {
		c.Violation("C15 "+op.name+": fails without any fault", map[string]any{"error": fmt.Sprint(ref.err, pn)})
		return
	}
	n := base.calls
	c.Count("dependency_calls", uint64(n))
	c.Sample(map[string]any{"operation": op.name, "dependency_calls": n, "sequence": strings.Join(compress(base.log), " "), "fault_free_value": trunc(ref.value, 90)})

	judge := func(plan *faultPlan, desc string, persistent bool) {
		if !c.Next() {
			return
		}
		var r c15Result
		clock()
		pn := hx.Try(func() { r = op.run(plan) })
		// whatever happened under the fault, the same operation on fresh objects with healthy
		// dependencies must afterwards give the fault-free result (no state left behind)
		var again c15Result
		clock()
		pn2 := hx.Try(func() { again = op.run(&faultPlan{failAt: map[int]string{}}) })
		if pn == nil && (pn2 != nil || again.err != nil || again.value != ref.value) {
			c.Outcome("violation")
			c.Violation("C15 "+op.name+": after a run with a failing dependency the same operation with healthy dependencies no longer gives the fault-free result", map[string]any{"operation": op.name, "faults": desc, "error": fmt.Sprint(again.err, pn2), "value": trunc(again.value, 120), "fault_free_value": trunc(ref.value, 120)})
		}
		// which seam was hit first?
		seam := "?"
		idx := plan.effective
		if idx >= 1 && idx <= len(plan.log) {
			seam = plan.log[idx-1]
		}
		injected := idx >= 1
		detail := map[string]any{"operation": op.name, "faults": desc, "failing_call": seam, "calls_made": plan.calls, "error": fmt.Sprint(r.err), "value": trunc(r.value, 120), "fault_free_value": trunc(ref.value, 120)}
		if pn != nil {
			c.Outcome("terminates")
			detail["stack"] = pn.Stack
			c.Violation(fmt.Sprintf("C15 %s: %s at %s ends in %s", op.name, faultKindOf(plan), seamClass(seam), pn.String()), detail)
			return
		}
		if !injected {
			c.Outcome("fault-not-reached")
			return
		}
		if stepping && !strings.HasPrefix(seam, "signer") {
			// under the advancing clock only signer faults are judged: their verdict (an error) does
			// not depend on how often a retrying read path looked at the clock
			c.Outcome("not-judged-under-the-advancing-clock")
			return
		}
		c.Nontrivial([]byte(op.name), []byte(desc), []byte(unit))
		if r.side == "IMAGE OBJECT CHANGED BY A FAILED SIGN" {
			c.Outcome("violation")
			c.Violation("C15 "+op.name+": a failed signing changes the image object", detail)
			return
		}
		if r.err != nil {
			if strings.HasPrefix(op.name, "Efivarfs.WriteSignedUpdate") && strings.HasPrefix(seam, "signer") && r.side != "" {
				c.Outcome("violation")
				c.Violation("C15 signed update writes although signing failed", detail)
				return
			}
			c.Outcome("error-returned")
			return
		}
		// success reported
		kind := faultKindOf(plan)
		transientReader := strings.HasPrefix(seam, "reader") && (!persistent || strings.HasPrefix(op.name, "one image object:") || kind == "persistent short")
		shortRead := strings.HasSuffix(kind, "short") && strings.HasSuffix(seam, "f.Read")
		readClose := strings.HasSuffix(seam, "f.Close") && (strings.Contains(op.name, "Get") || strings.Contains(op.name, "Read"))
		// a failed Stat on the read path of the plain file helper only costs it its size hint
		statHint := strings.HasSuffix(seam, "f.Stat") && op.name == "FSWrapper.ReadFile"
		if transientReader || shortRead || readClose || statHint {
			if r.value != ref.value {
				c.Outcome("violation")
				c.Violation(fmt.Sprintf("C15 %s: success with a wrong value after %s at %s", op.name, kind, seamClass(seam)), detail)
				return
			}
			c.Outcome("success-with-correct-value")
			return
		}
		c.Outcome("violation")
		c.Violation(fmt.Sprintf("C15 %s: reports success although %s failed (%s)", op.name, seamClass(seam), kind), detail)
	}

	// bound 1: every k, every kind
	for k := 1; k <= n; k++ {
		for _, kd := range op.kinds {
			judge(&faultPlan{failAt: map[int]string{k: kd}}, fmt.Sprintf("call %d: %s", k, kd), false)
		}
	}
	// persistent faults
	for k := 1; k <= n; k++ {
		for _, kd := range op.kinds {
			judge(&faultPlan{failAt: map[int]string{}, from: k, fromKnd: kd}, fmt.Sprintf("every call from %d on: %s", k, kd), true)
		}
	}
	// bound 2: every pair
	maxPairs := 60
	if tier == "thorough" {
		maxPairs = 200
	}
	if n <= maxPairs && !stepping {
		for k := 1; k <= n; k++ {
			for l := k + 1; l <= n; l++ {
				for _, kd := range op.kinds {
					for _, kd2 := range op.kinds {
						judge(&faultPlan{failAt: map[int]string{k: kd, l: kd2}}, fmt.Sprintf("calls %d and %d: %s, %s", k, l, kd, kd2), false)
						if c.Expired() {
							return
						}
					}
				}
			}
		}
	} else if !stepping {
		c.Note("%s: %d calls, pairs not enumerated (bound %d)", op.name, n, maxPairs)
	}
}

func faultKindOf(p *faultPlan) string {
	if p.from > 0 {
		return "persistent " + p.fromKnd
	}
	if k, ok := p.failAt[p.effective]; ok {
		return k
	}
	first := 1 << 30
	k := ""
	for i, kd := range p.failAt {
		if i < first {
			first, k = i, kd
		}
	}
	return k
}

func seamClass(s string) string {
	return strings.TrimPrefix(s, "fs.")
}

func compress(log []string) []string {
	var out []string
	for i := 0; i < len(log); {
		j := i
		for j < len(log) && log[j] == log[i] {
			j++
		}
		if j-i > 1 {
			out = append(out, fmt.Sprintf("%s x%d", log[i], j-i))
		} else {
			out = append(out, log[i])
		}
		i = j
	}
	return out
}

var _ = x509.Certificate{}
