//go:build !verifsched

package props

import (
	"bytes"
	"crypto"
	"encoding/binary"
	"fmt"
	"io"
	"os"
	"strconv"
	"strings"
	"time"

	"github.com/foxboron/go-uefi/authenticode"
	"github.com/foxboron/go-uefi/efi/signature"
	"github.com/foxboron/go-uefi/pkcs7"

	"verif/gen/pegen"
	"verif/internal/hx"
	"verif/keys"
	"verif/ref/der"
	"verif/ref/refpe"
)

func init() {
	hx.Register(&hx.Prop{
		ID:    "C13",
		Level: "exploration",
		Rule: "driver per input: images: Parse -> Signatures -> Hash -> Bytes -> Open+ReadAll -> Verify(cert); blobs: ParsePKCS7+Verify, ParseAuthenticode+Verify, EFIVariableAuthentication2.Verify. " +
			"inputs (deterministic, smallest first): seeds = synthetic layouts unsigned and signed + the repository's binaries and signature files; (a) every header field (e_lfanew, NumberOfSections, SizeOfOptionalHeader, Magic, SizeOfHeaders, NumberOfRvaAndSizes, certificate directory address/size, symbol table pointer/count, per section raw pointer/raw size/virtual size/relocation pointer/count) x boundary alphabet, then all pairs of fields (deviation bound 2); " +
			"(b) WIN_CERTIFICATE header fields of the table (dwLength, revision, type) x alphabet, alone and paired with the directory fields; (c) every truncation point; (d) for blobs the C04 derivation set (every byte position x value set, the structural edit catalogue incl. no signed attributes / no contentType / unknown OIDs / truncated lengths); (e) all byte strings of length <= 2 and all strings of length <= 6 over {00,30,80,82,ff,M,Z} for every entry point. " +
			"every single-field image mutation is also driven through other io.ReaderAt kinds (ReadAt-only wrapper, readers with advanced cursors, exact and open-ended io.SectionReader). oracle: outcome class must be 'returned' (value or error); panic, process exit (log shim), worker death (OOM under ulimit -v, crash), hang (watchdog) and allocation above 64 MiB + 64*len(input) are violations. non-trivial = the input was executed to completion and classified; distinct = distinct (entry point, input bytes)",
		Assumptions: []string{"'time and memory proportional to the input' is decided with generous fixed thresholds: it detects unbounded or input-unrelated cost, not modest super-linear growth", "an input needing three coordinated field changes is not explored"},
		Units:       c13Units,
		Run:         c13Run,
		Budget:      dur(6*time.Minute, 45*time.Minute),
	})
}

type c13Seed struct {
	name string
	img  []byte
}

func c13Seeds(tier string) []c13Seed {
	var out []c13Seed
	ls := peBaseLayouts()
	for i, l := range ls {
		if tier != "thorough" && i >= 3 {
			break
		}
		img := pegen.Build(l)
		out = append(out, c13Seed{fmt.Sprintf("layout%d", i), img})
		if s, _, err := c02Sign(img, 1); err == nil {
			out = append(out, c13Seed{fmt.Sprintf("layout%d-signed", i), s})
		}
	}
	for _, f := range []string{"/repo/authenticode/testdata/test.pecoff", "/repo/authenticode/testdata/test.pecoff.signed"} {
		if b, err := os.ReadFile(f); err == nil {
			out = append(out, c13Seed{f[len("/repo/authenticode/testdata/"):], b})
		}
	}
	return out
}

func c13Units(tier string) []string {
	var u []string
	for _, s := range c13Seeds(tier) {
		u = append(u, "fields#"+s.name, "trunc#"+s.name)
		for k := 0; k < 4; k++ {
			u = append(u, fmt.Sprintf("pairs#%s#%d", s.name, k))
		}
	}
	for _, s := range c04SeedNames() {
		u = append(u, "blob-edits#"+s)
		for k := 0; k < 4; k++ {
			u = append(u, fmt.Sprintf("blob-bytes#%s#%d", s, k))
		}
	}
	return append(u, "short-strings#image", "short-strings#blob", "bigfiles", "scaling", "cert-entries", "section-counts")
}

func c13DriveImage(x []byte) { c13DriveImageVia(bytes.NewReader(x)) }

// countingReaderAt counts the bytes the library asks of the image: work proportional to the input
// means a bounded number of passes over it, whatever the headers claim.
type countingReaderAt struct {
	r     io.ReaderAt
	n     int64
	limit int64
}

type amplification struct{ read, limit int64 }

func (a amplification) String() string {
	return fmt.Sprintf("reads more than %d bytes from the image reader (limit for this input: 64 x its size + 1 MiB)", a.limit)
}

func (c *countingReaderAt) ReadAt(p []byte, off int64) (int, error) {
	n, err := c.r.ReadAt(p, off)
	c.n += int64(n)
	if c.n > c.limit {
		panic(amplification{c.n, c.limit}.String())
	}
	return n, err
}

// countingSizeReaderAt keeps the Size method of the reader it wraps (a wrapper must not hide what
// the library may look for on the caller's reader).
type countingSizeReaderAt struct {
	*countingReaderAt
	sz interface{ Size() int64 }
}

func (c countingSizeReaderAt) Size() int64 { return c.sz.Size() }

func c13DriveImageVia(r0 io.ReaderAt) {
	size, _ := io.Copy(io.Discard, io.NewSectionReader(r0, 0, 1<<62))
	cr := &countingReaderAt{r: r0, limit: 64*size + 1<<20}
	var r io.ReaderAt = cr
	if sz, ok := r0.(interface{ Size() int64 }); ok {
		r = countingSizeReaderAt{cr, sz}
	}
	p, err := authenticode.Parse(r)
	if err != nil {
		return
	}
	p.Signatures()
	p.Hash(crypto.SHA256)
	p.Bytes()
	io.Copy(io.Discard, p.Open())
	p.Verify(keys.C(1))
}

// c13Overlapping builds an image whose k sections all claim the same region of secBytes bytes
// behind the headers (the sum of their sizes is unrelated to the file size).
func c13Overlapping(k, secBytes int) []byte {
	img := pegen.Build(pegen.Layout{PE32Plus: true, Lfanew: 0x40, Secs: make([]pegen.Sec, k), Trailing: secBytes})
	im, err := refpe.Parse(img)
	if err != nil {
		return img
	}
	for _, s := range im.Sections {
		binary.LittleEndian.PutUint32(img[s.HeaderOff+8:], uint32(secBytes))
		binary.LittleEndian.PutUint32(img[s.HeaderOff+16:], uint32(secBytes))
		binary.LittleEndian.PutUint32(img[s.HeaderOff+20:], uint32(im.SizeOfHeaders))
	}
	return img
}

func c13DriveBlob(entry int, b []byte, img []byte) {
	switch entry {
	case 0:
		if p, err := pkcs7.ParsePKCS7(b); err == nil {
			p.Verify(keys.C(1))
			p.HasCertificate(keys.C(1))
		}
	case 1:
		if a, err := authenticode.ParseAuthenticode(b); err == nil {
			a.Verify(keys.C(1), bytes.NewReader(img))
		}
	case 2:
		a := signature.NewEFIVariableAuthentication2()
		a.AuthInfo.CertData = b
		a.Verify(keys.C(1))
	}
}

var c13BlobEntries = []string{"ParsePKCS7+Verify", "ParseAuthenticode+Verify", "EFIVariableAuthentication2.Verify"}

// c13Fields lists the header fields of an image (located by the reference reader).
func c13Fields(img []byte) []fieldRef {
	im, err := refpe.Parse(img)
	if err != nil {
		return nil
	}
	coff := im.Lfanew + 4
	ddBase := im.CertDirOff - 32
	f := []fieldRef{
		{"e_lfanew", 0x3c, 4}, {"NumberOfSections", coff + 2, 2}, {"PointerToSymbolTable", coff + 8, 4}, {"NumberOfSymbols", coff + 12, 4},
		{"SizeOfOptionalHeader", coff + 16, 2}, {"Magic", im.OptOff, 2}, {"SizeOfHeaders", im.OptOff + 60, 4}, {"NumberOfRvaAndSizes", ddBase - 4, 4},
		{"CertDir.VirtualAddress", im.CertDirOff, 4}, {"CertDir.Size", im.CertDirOff + 4, 4},
	}
	for i := range im.Sections {
		if i >= 2 {
			break
		}
		h := im.Sections[i].HeaderOff
		f = append(f, fieldRef{fmt.Sprintf("Section[%d].VirtualSize", i), h + 8, 4}, fieldRef{fmt.Sprintf("Section[%d].SizeOfRawData", i), h + 16, 4},
			fieldRef{fmt.Sprintf("Section[%d].PointerToRawData", i), h + 20, 4}, fieldRef{fmt.Sprintf("Section[%d].PointerToRelocations", i), h + 24, 4},
			fieldRef{fmt.Sprintf("Section[%d].NumberOfRelocations", i), h + 32, 2})
	}
	if im.CertSize != 0 {
		o := int(im.CertOff)
		f = append(f, fieldRef{"WIN_CERTIFICATE.dwLength", o, 4}, fieldRef{"WIN_CERTIFICATE.wRevision", o + 4, 2}, fieldRef{"WIN_CERTIFICATE.wCertificateType", o + 6, 2})
	}
	return f
}

func c13Vals(cur uint64, n int, f fieldRef) []uint64 {
	v := boundaryValues(cur, n, f.width)
	if strings.HasPrefix(f.name, "WIN_CERTIFICATE.dwLength") {
		for x := uint64(2); x <= 6; x++ {
			v = append(v, x)
		}
	}
	return v
}

func fieldClass(n string) string {
	if i := strings.Index(n, "["); i >= 0 {
		return n[:i] + n[strings.Index(n, "]")+1:]
	}
	return n
}

func c13Run(c *hx.Ctx, tier, unit string) {
	parts := strings.Split(unit, "#")
	findSeed := func(n string) []byte {
		for _, s := range c13Seeds(tier) {
			if s.name == n {
				return s.img
			}
		}
		return nil
	}
	switch parts[0] {
	case "scaling":
		// time proportional to the input size: n and 8n sections / attributes / certificates / signer entries
		scalingRun(c, "C13", "image driver", "image with n sections", 8191, func(n int) []byte {
			secs := make([]pegen.Sec, n)
			for i := range secs {
				secs[i] = pegen.Sec{RawSize: 8 * (i % 3)}
			}
			return pegen.Build(pegen.Layout{PE32Plus: true, Lfanew: 0x40, Secs: secs, Trailing: 3})
		}, c13DriveImage)
		seed := p7LibSeeds()[0]
		grow := func(what string) func(n int) []byte {
			return func(n int) []byte {
				t, err := p7Open(seed.Blob)
				if err != nil {
					return seed.Blob
				}
				switch what {
				case "attributes":
					for i := 0; i < n; i++ {
						t.attrs.Children = append(t.attrs.Children, der.Cons(0x30, der.Prim(0x06, der.OID(1, 2, 3, uint64(i+1))), der.Cons(0x31, der.Prim(0x04, []byte{byte(i), byte(i >> 8)}))))
					}
				case "certificates":
					for i := 0; i < n; i++ {
						t.certs.Children = append(t.certs.Children, t.certs.Children[0].Clone())
					}
				case "signer entries":
					for i := 0; i < n; i++ {
						t.signers.Children = append(t.signers.Children, t.si.Clone())
					}
				}
				return t.root.Encode()
			}
		}
		for _, w := range []struct {
			what string
			n    int
		}{{"attributes", 12500}, {"certificates", 2048}, {"signer entries", 2048}} { // 8n is large enough for a quadratic step of ~10 ns per pair to take many seconds
			for e := range c13BlobEntries {
				e := e
				scalingRun(c, "C13", c13BlobEntries[e], "blob with n additional "+w.what, w.n, grow(w.what), func(in []byte) { c13DriveBlob(e, in, seed.Detached) })
			}
		}
	case "fields":
		img := findSeed(parts[1])
		fs := c13Fields(img)
		c.Sample(map[string]any{"seed": parts[1], "fields": len(fs), "len": len(img)})
		robustRun(c, "C13", "image driver", "unmodified seed", img, func() { c13DriveImage(img) })
		for _, f := range fs {
			for _, v := range c13Vals(getField(img, f), len(img), f) {
				x := append([]byte{}, img...)
				putField(x, f, v)
				robustRun(c, "C13", "image driver", "header field "+fieldClass(f.name), x, func() { c13DriveImage(x) })
				// the same bytes through the other io.ReaderAt implementations a caller may use
				// (windows larger than the data, readers without Size, advanced cursors)
				for _, rk := range readerKinds {
					rk := rk
					robustRun(c, "C13", "image driver via "+rk.name, "header field "+fieldClass(f.name), x, func() { c13DriveImageVia(rk.mk(x)) })
				}
			}
		}
	case "pairs":
		img := findSeed(parts[1])
		shard, _ := strconv.Atoi(parts[2])
		if shard == 0 {
			// a signed file cut short by k bytes with the directory size lowered by k: the table stays
			// consistent with the file but its last entry loses (part of) its padding or its tail
			if im, err := refpe.Parse(img); err == nil && im.CertSize != 0 {
				for k := 1; k <= 24; k++ {
					if int(im.CertSize) <= k {
						break
					}
					x := append([]byte{}, img[:len(img)-k]...)
					binary.LittleEndian.PutUint32(x[im.CertDirOff+4:], uint32(int(im.CertSize)-k))
					robustRun(c, "C13", "image driver", "file cut by k bytes, certificate directory size lowered by k", x, func() { c13DriveImage(x) })
					for _, rk := range readerKinds {
						rk := rk
						robustRun(c, "C13", "image driver via "+rk.name, "file cut by k bytes, certificate directory size lowered by k", x, func() { c13DriveImageVia(rk.mk(x)) })
					}
				}
			}
		}
		fs := c13Fields(img)
		n := 0
		for i, f := range fs {
			for j := i + 1; j < len(fs); j++ {
				g := fs[j]
				n++
				if n%4 != shard {
					continue
				}
				for _, v := range c13Vals(getField(img, f), len(img), f) {
					for _, w := range c13Vals(getField(img, g), len(img), g) {
						x := append([]byte{}, img...)
						putField(x, f, v)
						putField(x, g, w)
						robustRun(c, "C13", "image driver", "header fields "+fieldClass(f.name)+"+"+fieldClass(g.name), x, func() { c13DriveImage(x) })
					}
				}
				if c.Expired() {
					return
				}
			}
		}
	case "trunc":
		img := findSeed(parts[1])
		for n := 0; n < len(img); n++ {
			x := img[:n]
			robustRun(c, "C13", "image driver", "truncated image", x, func() { c13DriveImage(x) })
		}
	case "blob-edits", "blob-bytes":
		s, err := c04Seed(parts[1])
		if err != nil {
			c.Note("seed unavailable: %v", err)
			return
		}
		if parts[0] == "blob-edits" {
			edits := append([]p7Edit{{Name: "untouched seed", Blob: s.Blob}}, p7Edits(*s)...)
			for _, e := range edits {
				for ei, en := range c13BlobEntries {
					b := e.Blob
					robustRun(c, "C13", en, "structural edit", b, func() { c13DriveBlob(ei, b, s.Img) })
				}
				for n := 0; n < len(e.Blob); n += 1 + len(e.Blob)/200 {
					b := e.Blob[:n]
					robustRun(c, "C13", c13BlobEntries[0], "truncated blob", b, func() { c13DriveBlob(0, b, s.Img) })
				}
			}
			return
		}
		shard, _ := strconv.Atoi(parts[2])
		mut := append([]byte{}, s.Blob...)
		for off := shard; off < len(s.Blob); off += 4 {
			v := s.Blob[off]
			cands := []byte{v ^ 1, v ^ 0x80, 0x00, 0xff, v - 1, v + 1, 0x30, 0x80}
			if tier == "thorough" {
				cands = cands[:0]
				for x := 0; x < 256; x++ {
					if byte(x) != v {
						cands = append(cands, byte(x))
					}
				}
			}
			for _, x := range cands {
				mut[off] = x
				for ei, en := range c13BlobEntries {
					if ei == 1 && s.Img == nil {
						continue
					}
					robustRun(c, "C13", en, "single byte change", mut, func() { c13DriveBlob(ei, mut, s.Img) })
				}
			}
			mut[off] = v
			if c.Expired() {
				return
			}
		}
	case "section-counts":
		// NumberOfSections is a 16-bit field: images whose section table really has 254..257, 32767,
		// 32768 and 65531..65535 entries (all but two without raw data), well-formed throughout
		for _, n := range []int{254, 255, 256, 257, 32767, 32768, 65531, 65532, 65533, 65534, 65535} {
			secs := make([]pegen.Sec, n)
			secs[0].RawSize, secs[n-1].RawSize = 13, 8
			x := pegen.Build(pegen.Layout{PE32Plus: true, Lfanew: 0x40, Secs: secs, Trailing: 3})
			c.Tick()
			robustRun(c, "C13", "image driver", fmt.Sprintf("image with %d section headers", n), x[:min(len(x), 4096)], func() { c13DriveImage(x) })
		}
	case "cert-entries":
		// certificate-table entries of every type the specification names (and some it does not), both
		// revisions, with bodies of 0..40 bytes: nothing, zeros, the PKCS7 type GUID and what follows it in a
		// WIN_CERTIFICATE_UEFI_GUID, the beginning of a real signature; alone and in front of a valid signature
		base := pegen.Build(pegen.Layout{PE32Plus: true, Lfanew: 0x40, Secs: []pegen.Sec{{RawSize: 8}, {RawSize: 16}}})
		sigBlob, err := c02SignBlob(base, 1)
		if err != nil {
			c.Note("cannot sign the base image: %v", err)
			return
		}
		p7guid := []byte{0x9d, 0xd2, 0xaf, 0x4a, 0xdf, 0x68, 0xee, 0x49, 0x8a, 0xa9, 0x34, 0x7d, 0x37, 0x56, 0x65, 0xa7}
		bodies := []struct {
			name string
			b    []byte
		}{{"zeros", make([]byte, 64)}, {"the PKCS7 type GUID, then zeros", append(append([]byte{}, p7guid...), make([]byte, 48)...)},
			{"the PKCS7 type GUID, then the beginning of a signature", append(append([]byte{}, p7guid...), sigBlob[:48]...)}, {"the beginning of a signature", sigBlob[:64]}}
		im0, _ := refpe.Parse(base)
		for _, typ := range []uint16{0x0000, 0x0001, 0x0002, 0x0003, 0x0004, 0x0EF0, 0x0EF1, 0x0EF2, 0xFFFF} {
			for _, rev := range []uint16{0x0100, 0x0200} {
				for n := 0; n <= 40; n++ {
					for _, bd := range bodies {
						for _, followed := range []bool{false, true} {
							blobs := [][]byte{bd.b[:n]}
							if followed {
								blobs = append(blobs, sigBlob)
							}
							x, err := refpe.Attach(base, blobs...)
							if err != nil {
								continue
							}
							off := int(binary.LittleEndian.Uint32(x[im0.CertDirOff:]))
							binary.LittleEndian.PutUint16(x[off+4:], rev)
							binary.LittleEndian.PutUint16(x[off+6:], typ)
							class := fmt.Sprintf("certificate entry of type %#06x with a short body (%s)", typ, bd.name)
							robustRun(c, "C13", "image driver", class, x, func() { c13DriveImage(x) })
						}
					}
				}
			}
		}
	case "short-strings":
		alpha := []byte{0x00, 0x30, 0x80, 0x82, 0xff, 'M', 'Z'}
		if parts[1] == "image" {
			shortStrings(alpha, 6, func(b []byte) {
				robustRun(c, "C13", "image driver", "short string", b, func() { c13DriveImage(b) })
			})
			return
		}
		shortStrings(alpha, 6, func(b []byte) {
			for ei, en := range c13BlobEntries {
				robustRun(c, "C13", en, "short string", b, func() { c13DriveBlob(ei, b, nil) })
			}
		})
	case "bigfiles":
		// many sections claiming one region: the sum of the sizes passes 2^16, 2^31, 2^32 while the file stays small
		for _, kc := range [][2]int{{2, 4096}, {17, 4096}, {64, 1 << 20}, {2047, 1 << 20}, {2048, 1 << 20}, {4095, 1 << 20}, {4096, 1 << 20}, {4097, 1 << 20}, {8192, 1<<20 - 8}} {
			x := c13Overlapping(kc[0], kc[1])
			c.Tick()
			robustRun(c, "C13", "image driver", fmt.Sprintf("%d sections claiming the same %d bytes", kc[0], kc[1]), x[:min(len(x), 4096)], func() { c13DriveImage(x) })
		}
		// the repository's larger binaries: single-field deviations only
		for _, f := range []string{"/repo/tests/data/binary/HelloWorld.efi", "/repo/tests/data/binary/HelloWorld.efi.signed", "/repo/tests/data/binary/linuxx64.efi.stub"} {
			img, err := os.ReadFile(f)
			if err != nil {
				continue
			}
			c.Tick()
			robustRun(c, "C13", "image driver", "unmodified seed", img, func() { c13DriveImage(img) })
			for _, fr := range c13Fields(img) {
				for _, v := range c13Vals(getField(img, fr), len(img), fr) {
					x := append([]byte{}, img...)
					putField(x, fr, v)
					robustRun(c, "C13", "image driver", "header field "+fieldClass(fr.name), x, func() { c13DriveImage(x) })
				}
			}
		}
	}
}
