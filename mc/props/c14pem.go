//go:build !verifsched

package props

import (
	"crypto/ecdh"
	"crypto/ecdsa"
	"crypto/ed25519"
	"crypto/elliptic"
	"crypto/x509"
	"encoding/pem"
	"math/big"

	"verif/keys"
)

type namedPEM struct {
	name string
	pem  []byte
}

// c14OtherPEMs builds, deterministically, PEM files that are not "PKCS#8 RSA key" / "certificate".
func c14OtherPEMs() []namedPEM {
	var out []namedPEM
	add := func(name, typ string, der []byte, err error) {
		if err != nil {
			panic(err)
		}
		out = append(out, namedPEM{name, pem.EncodeToMemory(&pem.Block{Type: typ, Bytes: der})})
	}
	d := new(big.Int).SetBytes(fill(32, 0x42))
	ec := &ecdsa.PrivateKey{D: d}
	ec.Curve = elliptic.P256()
	ec.X, ec.Y = elliptic.P256().ScalarBaseMult(d.Bytes())
	b, err := x509.MarshalPKCS8PrivateKey(ec)
	add("PKCS#8 ECDSA P-256 key", "PRIVATE KEY", b, err)
	b, err = x509.MarshalECPrivateKey(ec)
	add("SEC1 EC key", "EC PRIVATE KEY", b, err)
	ed := ed25519.NewKeyFromSeed(fill(32, 0x43))
	b, err = x509.MarshalPKCS8PrivateKey(ed)
	add("PKCS#8 Ed25519 key", "PRIVATE KEY", b, err)
	xk, err := ecdh.X25519().NewPrivateKey(fill(32, 0x44))
	if err != nil {
		panic(err)
	}
	b, err = x509.MarshalPKCS8PrivateKey(xk)
	add("PKCS#8 X25519 key", "PRIVATE KEY", b, err)
	pk, err := ecdh.P256().NewPrivateKey(fill(32, 0x45))
	if err != nil {
		panic(err)
	}
	b, err = x509.MarshalPKCS8PrivateKey(pk)
	add("PKCS#8 ECDH P-256 key", "PRIVATE KEY", b, err)
	add("PKCS#1 RSA key", "RSA PRIVATE KEY", x509.MarshalPKCS1PrivateKey(keys.K(1)), nil)
	b, err = x509.MarshalPKIXPublicKey(&keys.K(1).PublicKey)
	add("PKIX RSA public key", "PUBLIC KEY", b, err)
	add("certificate labelled as key", "PRIVATE KEY", keys.C(1).Raw, nil)
	b, err = x509.MarshalPKCS8PrivateKey(keys.K(1))
	add("key labelled as certificate", "CERTIFICATE", b, err)
	keyPEM := keys.PEM(1)
	certPEM := keys.CertPEM(keys.C(1))
	cat := func(parts ...[]byte) []byte {
		var b []byte
		for _, p := range parts {
			b = append(b, p...)
		}
		return b
	}
	out = append(out,
		namedPEM{"key followed by certificate", cat(keyPEM, certPEM)},
		namedPEM{"certificate followed by key", cat(certPEM, keyPEM)},
		namedPEM{"key followed by a blank line", cat(keyPEM, []byte("\n"))},
		namedPEM{"key followed by text", cat(keyPEM, []byte("trailing text without newline"))},
		namedPEM{"certificate twice", cat(certPEM, certPEM)},
		namedPEM{"three blocks of other kinds, then key and certificate", cat(out[0].pem, out[2].pem, out[6].pem, keyPEM, certPEM)},
	)
	// parameter blocks as openssl writes them in front of a key (ecparam -genkey, dhparam), once, twice,
	// three times, alone, and every other block label repeated in front of the key
	ecp := pem.EncodeToMemory(&pem.Block{Type: "EC PARAMETERS", Bytes: []byte{0x06, 0x08, 0x2a, 0x86, 0x48, 0xce, 0x3d, 0x03, 0x01, 0x07}})
	dhp := pem.EncodeToMemory(&pem.Block{Type: "DH PARAMETERS", Bytes: []byte{0x30, 0x06, 0x02, 0x01, 0x17, 0x02, 0x01, 0x02}})
	out = append(out,
		namedPEM{"EC PARAMETERS, then the key", cat(ecp, keyPEM)},
		namedPEM{"EC PARAMETERS twice, then the key", cat(ecp, ecp, keyPEM)},
		namedPEM{"DH PARAMETERS and EC PARAMETERS, then the key", cat(dhp, ecp, keyPEM)},
		namedPEM{"three parameter blocks, no key", cat(ecp, dhp, ecp)},
		namedPEM{"EC PARAMETERS alone", ecp},
	)
	for _, label := range []string{"X509 CRL", "CERTIFICATE REQUEST", "ENCRYPTED PRIVATE KEY", "PKCS7", "CMS", "TRUSTED CERTIFICATE", "PARAMETERS", "ANY PARAMETERS"} {
		blk := pem.EncodeToMemory(&pem.Block{Type: label, Bytes: []byte{0x30, 0x03, 0x02, 0x01, 0x01}})
		out = append(out, namedPEM{label + " twice, then key and certificate", cat(blk, blk, keyPEM, certPEM)})
	}
	out = append(out, namedPEM{"PEM with headers", pem.EncodeToMemory(&pem.Block{Type: "PRIVATE KEY", Headers: map[string]string{"Proc-Type": "4,ENCRYPTED", "DEK-Info": "AES-128-CBC,00"}, Bytes: b})})
	return out
}
