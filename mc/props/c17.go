//go:build !verifsched

package props

import (
	"bytes"
	"encoding/binary"
	"fmt"
	"io"
	"strings"
	"testing/iotest"
	"time"
	"unicode/utf16"
	"unicode/utf8"

	"github.com/foxboron/go-uefi/efi/device"
	"github.com/foxboron/go-uefi/efi/signature"
	"github.com/foxboron/go-uefi/efi/util"
	"github.com/foxboron/go-uefi/efivar"

	"verif/gen/dpgen"
	"verif/internal/hx"
	"verif/ref/refesl"
	"verif/weakeq"
)

func init() {
	hx.Register(&hx.Prop{
		ID:    "C17",
		Level: "exploration",
		Rule: "GUIDs: (i) all 65536 GUIDs whose byte i is 0x0i or 0xAi; (ii) each of the 16 byte positions x all 256 values x 3 backgrounds; (iii) Data2 and Data3 exhaustively, Data1 over all values with <=2 non-zero nibbles; (iv) every GUID constant of the library; " +
			"all ordered pairs of a 600-element subset for equality. Oracle: canonical lower-case text from an independent formatter, text/bytes/struct round trips (both letter cases), big-endian byte form, little-endian wire layout inside encoded structures (both directions, decoding also through byte-at-a-time, half-sized and data-with-EOF readers). " +
			"Strings: all strings of length <=3 over 14 boundary code points (incl. code units whose low byte is 00), a non-BMP character and a U+3000 slid through every offset 0..300 of long strings, every BMP scalar value and every plane boundary individually, long strings; oracle unicode/utf16: encode == UTF-16LE + 0000, decode(encode) == s, decode with trailing bytes, every unterminated prefix is an error. " +
			"non-trivial = every oracle clause was evaluated for the value; distinct = distinct GUID / string",
		Assumptions: []string{"2^128 GUIDs are covered only through per-byte and per-field local patterns (width, padding and byte-order bugs are local)", "Go's unicode/utf16 as string reference"},
		Units: func(tier string) []string {
			return []string{"guid-bits", "guid-bytes", "guid-data1", "guid-data2", "guid-data3", "guid-consts", "guid-cmp", "utf16-short", "utf16-pairs", "utf16-scalars", "utf16-long", "utf16-path-nodes"}
		},
		Run:    c17Run,
		Budget: dur(3*time.Minute, 10*time.Minute),
	})
}

func refFormat(g util.EFIGUID) string {
	const hexd = "0123456789abcdef"
	var sb strings.Builder
	put := func(v uint64, nib int) {
		for i := nib - 1; i >= 0; i-- {
			sb.WriteByte(hexd[(v>>(4*uint(i)))&0xf])
		}
	}
	put(uint64(g.Data1), 8)
	sb.WriteByte('-')
	put(uint64(g.Data2), 4)
	sb.WriteByte('-')
	put(uint64(g.Data3), 4)
	sb.WriteByte('-')
	put(uint64(g.Data4[0]), 2)
	put(uint64(g.Data4[1]), 2)
	sb.WriteByte('-')
	for _, b := range g.Data4[2:] {
		put(uint64(b), 2)
	}
	return sb.String()
}

func refBE(g util.EFIGUID) []byte {
	b := make([]byte, 16)
	binary.BigEndian.PutUint32(b, g.Data1)
	binary.BigEndian.PutUint16(b[4:], g.Data2)
	binary.BigEndian.PutUint16(b[6:], g.Data3)
	copy(b[8:], g.Data4[:])
	return b
}

func guidFromBE(b []byte) util.EFIGUID {
	var g util.EFIGUID
	g.Data1 = binary.BigEndian.Uint32(b)
	g.Data2 = binary.BigEndian.Uint16(b[4:])
	g.Data3 = binary.BigEndian.Uint16(b[6:])
	copy(g.Data4[:], b[8:])
	return g
}

func c17Guid(c *hx.Ctx, g util.EFIGUID, wireToo bool) {
	if !c.Next() {
		return
	}
	bad := func(what string, got, want any) {
		c.Outcome("violation")
		c.Violation("C17 GUID: "+what, map[string]any{"guid_fields": fmt.Sprintf("%08x %04x %04x %x", g.Data1, g.Data2, g.Data3, g.Data4), "got": fmt.Sprint(got), "want": fmt.Sprint(want)})
	}
	want := refFormat(g)
	var p *hx.Panic
	p = hx.Try(func() {
		gg := g
		if s := gg.Format(); s != want {
			bad("Format is not the canonical lower-case text", s, want)
			return
		}
		if r := util.StringToGUID(want); r == nil || *r != g {
			bad("parsing the canonical text does not return the GUID", r, g)
			return
		}
		if r := util.StringToGUID(strings.ToUpper(want)); r == nil || *r != g {
			bad("parsing the upper-case text does not return the GUID", r, g)
			return
		}
		// a returned GUID belongs to the caller: changing it must not change what the next parse returns
		if r := util.StringToGUID(want); r != nil {
			r.Data1 ^= 0xffffffff
			r.Data4[7] ^= 0xff
			if r2 := util.StringToGUID(want); r2 == nil || *r2 != g {
				bad("parsing the same text again after the caller changed the previous result returns another GUID", r2, g)
				return
			}
		}
		if r := util.BytesToGUID(refBE(g)); r != nil {
			r.Data2 ^= 0xffff
			if r2 := util.BytesToGUID(refBE(g)); r2 == nil || *r2 != g {
				bad("parsing the same bytes again after the caller changed the previous result returns another GUID", r2, g)
				return
			}
		}
		be := refBE(g)
		if b := util.GUIDToBytes(&gg); !bytes.Equal(b, be) {
			bad("byte form is not the big-endian field concatenation", hx8(b), hx8(be))
			return
		}
		if b := gg.Bytes(); !bytes.Equal(b, be) {
			bad("Bytes() is not the big-endian field concatenation", hx8(b), hx8(be))
			return
		}
		if r := util.BytesToGUID(be); r == nil || *r != g {
			bad("parsing the 16 bytes does not return the GUID", r, g)
			return
		}
		var wb bytes.Buffer
		util.WriteGUID(&wb, &gg)
		if !bytes.Equal(wb.Bytes(), be) {
			bad("WriteGUID is not the big-endian field concatenation", hx8(wb.Bytes()), hx8(be))
			return
		}
		if !util.CmpEFIGUID(g, gg) {
			bad("a GUID does not compare equal to itself", false, true)
			return
		}
		if wireToo {
			w := wire(g)
			var b1 bytes.Buffer
			signature.WriteSignatureData(&b1, signature.SignatureData{Owner: g, Data: []byte{1}})
			if !bytes.Equal(b1.Bytes()[:16], w[:]) {
				bad("signature owner is not Data1..3 little-endian + Data4 on the wire", hx8(b1.Bytes()[:16]), hx8(w[:]))
				return
			}
			// a GUID inside a device-path node (vendor messaging node) has the same in-structure layout
			{
				dp := append(append([]byte{3, 10, 20, 0}, w[:]...), 0x7f, 0xff, 4, 0)
				nodes, err := device.ParseDevicePath(bytes.NewReader(dp))
				vn, ok := device.EFIDevicePaths(nil), false
				if err == nil && len(nodes) == 1 {
					vn = nodes[0]
				}
				v, isV := vn.(device.VendorMessagingDevicePath)
				ok = isV && v.Guid == g
				if !ok {
					bad("GUID of a vendor messaging device-path node decoded from wire bytes differs", fmt.Sprint(vn, err), g)
					return
				}
			}
			// a GUID as the partition signature of a hard-drive node (signature type 2): stored in the same
			// layout whatever the partition-format field next to it says, and rendered as its canonical text
			for _, pf := range []uint8{0, 1, 2, 3, 0xff} {
				hd := dpgen.Node{Kind: "HD", PartNum: 1, Start: 0x800, Size: 0x1000, MBRType: pf, SigType: 2, Sig: w}
				nodes, err := device.ParseDevicePath(bytes.NewReader(append(hd.Bytes(), dpgen.End...)))
				if err != nil || len(nodes) != 1 {
					bad("hard-drive node with a GUID signature does not decode", fmt.Sprint(err), g)
					return
				}
				h, isH := nodes[0].(device.HardDriveMediaDevicePath)
				if !isH || h.PartitionSignature != w {
					bad("GUID signature of a hard-drive node is not kept in wire layout", fmt.Sprint(nodes[0]), hx8(w[:]))
					return
				}
				if txt := h.Format(); !strings.Contains(strings.ToLower(txt), refFormat(g)) {
					bad(fmt.Sprintf("GUID signature of a hard-drive node (partition format %d) is not rendered as the GUID's text", pf), txt, refFormat(g))
					return
				}
			}
			// the method twins of the package-level writers
			if tb := (&signature.SignatureData{Owner: g, Data: []byte{1}}).Bytes(); len(tb) < 16 || !bytes.Equal(tb[:16], w[:]) {
				bad("SignatureData.Bytes(): signature owner is not Data1..3 little-endian + Data4 on the wire", hx8(tb), hx8(w[:]))
				return
			}
			if tb := (&signature.SignatureList{SignatureType: g, ListSize: 28}).Bytes(); len(tb) < 16 || !bytes.Equal(tb[:16], w[:]) {
				bad("SignatureList.Bytes(): signature list type is not in wire layout", hx8(tb), hx8(w[:]))
				return
			}
			{
				l := signature.NewSignatureList(signature.CERT_SHA256_GUID)
				l.AppendBytes(g, fill(32, 0x19))
				db := signature.SignatureDatabase{l}
				var mb bytes.Buffer
				db.Marshal(&mb)
				if tb := db.Bytes(); len(tb) < 44 || !bytes.Equal(tb[28:44], w[:]) || !bytes.Equal(mb.Bytes(), tb) || !bytes.Equal(l.Bytes(), tb) {
					bad("SignatureDatabase.Bytes()/Marshal()/SignatureList.Bytes(): owner of an entry is not in wire layout (or the three encoders disagree)", hx8(tb), hx8(w[:]))
					return
				}
			}
			sd, err := signature.ReadSignatureData(bytes.NewReader(append(append([]byte{}, w[:]...), 7)), 17)
			if err != nil || sd.Owner != g {
				bad("signature owner decoded from wire bytes differs", fmt.Sprint(sd, err), g)
				return
			}
			// the layout is a property of the bytes, not of how the reader portions them
			for _, mk := range []func(io.Reader) io.Reader{iotest.OneByteReader, iotest.HalfReader, iotest.DataErrReader, PausingReader, LongPausingReader} {
				sd, err := signature.ReadSignatureData(mk(bytes.NewReader(append(append([]byte{}, w[:]...), 7))), 17)
				if err != nil || sd.Owner != g || len(sd.Data) != 1 || sd.Data[0] != 7 {
					bad("signature owner decoded from wire bytes differs when the reader returns the bytes in smaller portions", fmt.Sprint(sd, err), g)
					return
				}
				enc := refesl.Encode([]refesl.List{refesl.Mk(refesl.SHA256, 48, refesl.Entry{Owner: refesl.GUID(w), Data: fill(32, 0x2e)})})
				sl, err := signature.ReadSignatureList(mk(bytes.NewReader(enc)))
				if err != nil || len(sl.Signatures) != 1 || sl.Signatures[0].Owner != g || sl.SignatureType != signature.CERT_SHA256_GUID {
					bad("signature list decoded from wire bytes differs when the reader returns the bytes in smaller portions", fmt.Sprint(sl, err), g)
					return
				}
			}
			var b2 bytes.Buffer
			signature.WriteSignatureList(&b2, signature.SignatureList{SignatureType: g, ListSize: 28})
			if !bytes.Equal(b2.Bytes()[:16], w[:]) {
				bad("signature list type is not in wire layout", hx8(b2.Bytes()[:16]), hx8(w[:]))
				return
			}
			var b3 bytes.Buffer
			signature.WriteWinCertificateUEFIGUID(&b3, &signature.WinCertificateUEFIGUID{Header: signature.WINCertificate{Length: 24, Revision: 0x200, CertType: 0x0ef1}, CertType: g})
			if b3.Len() < 24 || !bytes.Equal(b3.Bytes()[8:24], w[:]) {
				bad("certificate type GUID is not in wire layout", hx8(b3.Bytes()), hx8(w[:]))
				return
			}
			wc, err := signature.ReadWinCertificateUEFIGUID(bytes.NewReader(b3.Bytes()))
			if err != nil || wc.CertType != g {
				bad("certificate type GUID decoded from wire bytes differs", fmt.Sprint(wc.CertType, err), g)
				return
			}
		}
		c.Outcome("guid-ok")
		c.Nontrivial(refBE(g))
	})
	if p != nil {
		bad("conversion ends in "+p.String(), p.Val, "a value")
	}
}

func c17Str(c *hx.Ctx, s string) {
	if !c.Next() {
		return
	}
	bad := func(what string, got, want any) {
		c.Outcome("violation")
		c.Violation("C17 string: "+what, map[string]any{"string_utf8_hex": hx8([]byte(s)), "got": fmt.Sprint(got), "want": fmt.Sprint(want)})
	}
	u := utf16.Encode([]rune(s))
	want := make([]byte, 0, 2*len(u)+2)
	for _, x := range u {
		want = append(want, byte(x), byte(x>>8))
	}
	want = append(want, 0, 0)
	p := hx.Try(func() {
		enc := util.MarshalUtf16Var(s)
		if !bytes.Equal(enc, want) {
			bad("encoding is not UTF-16LE plus one NUL terminator", hx8(enc), hx8(want))
			return
		}
		got, err := util.ParseUtf16Var(bytes.NewBuffer(append([]byte{}, want...)))
		if err != nil || got != s {
			bad("decoding the encoding does not return the string", fmt.Sprintf("%q %v", got, err), fmt.Sprintf("%q", s))
			return
		}
		// one buffer used for value after value (write, decode, write, decode): each decode returns the
		// string written last, whatever was decoded from the buffer before
		{
			var buf bytes.Buffer
			buf.Write(want)
			first, err1 := util.ParseUtf16Var(&buf)
			buf.Write([]byte{'b', 0, 0, 0})
			second, err2 := util.ParseUtf16Var(&buf)
			buf.Write(want)
			third, err3 := util.ParseUtf16Var(&buf)
			if err1 != nil || err2 != nil || err3 != nil || first != s || second != "b" || third != s {
				bad("decoding from a buffer that is reused for the next value does not return the value written last", fmt.Sprintf("%q %q %q %v %v %v", first, second, third, err1, err2, err3), fmt.Sprintf("%q \"b\" %q", s, s))
				return
			}
		}
		var es efivar.Efistring
		follow := append(append([]byte{}, want...), 0x41, 0x00, 0xff, 0xfe, 0x00)
		if err := es.Unmarshal(bytes.NewBuffer(follow)); err != nil || string(es) != s {
			bad("decoding a terminated string followed by other bytes does not return the string", fmt.Sprintf("%q %v", string(es), err), fmt.Sprintf("%q", s))
			return
		}
		// every proper prefix lacks the terminator and must be an error
		// (the empty input is C14's subject: it must not crash; here it must not be accepted as a string)
		body := want[:len(want)-2]
		for n := 0; n <= len(body)+1; n++ {
			pre := want[:n]
			var perr error
			var pgot string
			if pp := hx.Try(func() { pgot, perr = util.ParseUtf16Var(bytes.NewBuffer(append([]byte{}, pre...))) }); pp != nil {
				c.Outcome("unterminated-prefix-crash(C14)")
				continue
			}
			if perr == nil {
				bad("input without the terminator is accepted", fmt.Sprintf("prefix %s -> %q", hx8(pre), pgot), "an error")
				return
			}
		}
		// input that does not end in the terminator is an error even when a terminator occurs earlier
		// (a string list that lost its final terminator, a value followed by stray code units)
		for _, tail := range [][]byte{{'c', 0}, {'c', 0, 'd', 0}, {0, 1}, {0xff}} {
			in := append(append([]byte{}, want...), tail...)
			var perr error
			var pgot string
			if pp := hx.Try(func() { pgot, perr = util.ParseUtf16Var(bytes.NewBuffer(in)) }); pp != nil {
				c.Outcome("unterminated-crash(C14)")
				continue
			}
			if perr == nil {
				bad("input that does not end in the terminator is accepted (a terminator occurs earlier in it)", fmt.Sprintf("%s -> %q", hx8(in), pgot), "an error")
				return
			}
		}
		c.Outcome("string-ok")
		c.Nontrivial([]byte(s))
	})
	if p != nil {
		bad("conversion ends in "+p.String(), p.Val, "a value")
	}
}

var c17CodePoints = []rune{'A', 'z', '0', 0xE9, 0x100, 0x7FF, 0x800, 0x3000, 0xFFFD, 0xFEFF, 0xFFFF, 0x10000, 0x10FFFF, 0x1F600}

func c17Run(c *hx.Ctx, tier, unit string) {
	bgs := [][16]byte{{}, {0xff, 0xff, 0xff, 0xff, 0xff, 0xff, 0xff, 0xff, 0xff, 0xff, 0xff, 0xff, 0xff, 0xff, 0xff, 0xff},
		{0x01, 0x23, 0x45, 0x67, 0x89, 0xab, 0xcd, 0xef, 0xfe, 0xdc, 0xba, 0x98, 0x76, 0x54, 0x32, 0x10}}
	switch unit {
	case "guid-bits":
		for v := 0; v < 65536; v++ {
			var b [16]byte
			for i := 0; i < 16; i++ {
				b[i] = byte(i)
				if v&(1<<uint(i)) != 0 {
					b[i] |= 0xA0
				}
			}
			g := guidFromBE(b[:])
			if v == 0x1234 {
				c.Sample(map[string]any{"guid": refFormat(g)})
			}
			c17Guid(c, g, v%16 == 0)
		}
	case "guid-bytes":
		for _, bg := range bgs {
			for pos := 0; pos < 16; pos++ {
				for v := 0; v < 256; v++ {
					b := bg
					b[pos] = byte(v)
					c17Guid(c, guidFromBE(b[:]), true)
				}
			}
		}
		c.Sample(map[string]any{"guid": refFormat(guidFromBE(bgs[2][:]))})
	case "guid-data2", "guid-data3":
		for v := 0; v < 65536; v++ {
			g := guidFromBE(bgs[2][:])
			if unit == "guid-data2" {
				g.Data2 = uint16(v)
			} else {
				g.Data3 = uint16(v)
			}
			c17Guid(c, g, v%64 == 0)
		}
	case "guid-data1":
		for i := 0; i < 8; i++ {
			for j := i; j < 8; j++ {
				for a := 0; a < 16; a++ {
					for b := 0; b < 16; b++ {
						if i == j && b != 0 {
							continue
						}
						g := guidFromBE(bgs[0][:])
						g.Data1 = uint32(a)<<(4*uint(i)) | uint32(b)<<(4*uint(j))
						g.Data4 = [8]byte{1, 2, 3, 4, 5, 6, 7, 8}
						c17Guid(c, g, true)
					}
				}
			}
		}
	case "guid-consts":
		consts := []util.EFIGUID{signature.CERT_SHA256_GUID, signature.CERT_RSA2048_GUID, signature.CERT_RSA2048_SHA256_GUID, signature.CERT_SHA1_GUID,
			signature.CERT_RSA2048_SHA1_GUID, signature.CERT_X509_GUID, signature.CERT_SHA224_GUID, signature.CERT_SHA384_GUID, signature.CERT_SHA512_GUID,
			signature.CERT_X509_SHA256_GUID, signature.CERT_EXTERNAL_MANAGEMENT_GUID, signature.EFI_CERT_TYPE_RSA2048_SHA256_GUID, signature.EFI_CERT_TYPE_PKCS7_GUID,
			*efivar.PK.GUID, *efivar.Db.GUID, *efivar.LoaderEntrySelected.GUID}
		for _, g := range consts {
			c.Sample(map[string]any{"guid": refFormat(g)})
			c17Guid(c, g, true)
		}
	case "guid-cmp":
		var set []util.EFIGUID
		base := guidFromBE(bgs[2][:])
		set = append(set, base, guidFromBE(bgs[0][:]), guidFromBE(bgs[1][:]))
		for bit := 0; bit < 128; bit++ {
			for _, bg := range bgs {
				b := bg
				b[bit/8] ^= 1 << uint(bit%8)
				set = append(set, guidFromBE(b[:]))
			}
		}
		// values that a comparison weaker than equality (checksum, fold, prefix) takes for a base value,
		// over the textual byte order and over the wire byte order
		for _, bg := range bgs {
			for _, tw := range weakeq.Twins(bg[:]) {
				set = append(set, guidFromBE(tw.Value))
			}
			w := unwireBytes(bg)
			for _, tw := range weakeq.Twins(w[:]) {
				var wv [16]byte
				copy(wv[:], tw.Value)
				back := unwireBytes(wv)
				set = append(set, guidFromBE(back[:]))
			}
		}
		for i := 0; len(set) < 600; i++ {
			b := bgs[2]
			b[i%16] = byte(i * 37)
			b[(i*7+3)%16] ^= byte(i)
			set = append(set, guidFromBE(b[:]))
		}
		for i, a := range set {
			for j, b := range set {
				if !c.Next() {
					continue
				}
				want := a.Data1 == b.Data1 && a.Data2 == b.Data2 && a.Data3 == b.Data3 && a.Data4 == b.Data4
				var got bool
				if p := hx.Try(func() { got = util.CmpEFIGUID(a, b) }); p != nil || got != want {
					c.Violation("C17 GUID: equality is not field-wise", map[string]any{"a": refFormat(a), "b": refFormat(b), "got": got, "want": want})
					continue
				}
				if want {
					c.Outcome("cmp-equal")
				} else {
					c.Outcome("cmp-different")
				}
				if i != j {
					c.Nontrivial(refBE(a), refBE(b))
				}
			}
		}
	case "utf16-short":
		cps := c17CodePoints
		var rec func(cur []rune)
		rec = func(cur []rune) {
			c17Str(c, string(cur))
			if len(cur) == 3 {
				return
			}
			for _, r := range cps {
				rec(append(cur, r))
			}
		}
		rec(nil)
		c.Sample(map[string]any{"string": "Aé\U0001F600", "utf16le": hx8(util.MarshalUtf16Var("Aé\U0001F600"))})
	case "utf16-pairs":
		// every ordered pair (and the pair between two ASCII letters) of code points whose high or low octet
		// is one that byte-wise handling of UTF-16 trips over (00, FF, FE, FD, D8, DC, 0A): octet sequences
		// such as FD FF, FF FE, 00 00, 00 D8 then also arise ACROSS two code units
		var cps []rune
		for _, hi := range []rune{0x00, 0x01, 0x0a, 0xd7, 0xe0, 0xfd, 0xfe, 0xff} {
			for _, lo := range []rune{0x00, 0x01, 0x0a, 0xd8, 0xdc, 0xfd, 0xfe, 0xff} {
				if r := hi<<8 | lo; r != 0 && utf8.ValidRune(r) {
					cps = append(cps, r)
				}
			}
		}
		cps = append(cps, 0x1F600, 0x10FFFF, 0x10000)
		for _, a := range cps {
			for _, b := range cps {
				c17Str(c, string([]rune{a, b}))
				c17Str(c, string([]rune{'x', a, b, 'y'}))
			}
		}
	case "utf16-path-nodes":
		// the strings inside consecutive file-path nodes of a device path: each is a NUL-terminated UTF-16LE
		// string of its own and decodes to exactly what was encoded, whatever stands in the node before it
		names := []string{"\\", "\\EFI\\", "\\EFI", "EFI\\", "EFI", "\\\\", "x", "\u00e9\\", "\\\U0001F600", "/"}
		for _, a := range names {
			for _, b := range names {
				for _, d := range append([]string{""}, names[:3]...) {
					if !c.Next() {
						continue
					}
					seq := []string{a, b}
					if d != "" {
						seq = append(seq, d)
					}
					var enc []byte
					for _, n := range seq {
						enc = append(enc, dpgen.Node{Kind: "File", Path: n}.Bytes()...)
					}
					enc = append(enc, dpgen.End...)
					var nodes []device.EFIDevicePaths
					var err error
					if p := hx.Try(func() { nodes, err = device.ParseDevicePath(bytes.NewReader(enc)) }); p != nil || err != nil {
						c.Outcome("violation")
						c.Violation("C17 string: decoding consecutive file-path nodes fails", map[string]any{"names": seq, "error": fmt.Sprint(err, p)})
						continue
					}
					var got []string
					for _, n := range nodes {
						if f, ok := n.(device.FileTypeMediaDevicePath); ok {
							got = append(got, f.PathName)
						}
					}
					if fmt.Sprintf("%q", got) != fmt.Sprintf("%q", seq) {
						c.Outcome("violation")
						c.Violation("C17 string: a file-path node's string does not decode to the string that was encoded", map[string]any{"encoded": seq, "decoded": got})
						continue
					}
					c.Outcome("string-ok")
					c.Nontrivial(enc)
				}
			}
		}
	case "utf16-scalars":
		for r := rune(1); r <= 0xFFFF; r++ {
			if r >= 0xD800 && r <= 0xDFFF {
				continue
			}
			c17Str(c, string(r))
		}
		for plane := rune(1); plane <= 16; plane++ {
			for _, r := range []rune{plane << 16, plane<<16 | 0xFFFF, plane<<16 | 0x8000} {
				if utf8.ValidRune(r) {
					c17Str(c, string(r)+"x"+string(r))
				}
			}
		}
	case "utf16-long":
		for _, n := range []int{255, 256, 4096} {
			for _, unitStr := range []string{"a", "é", "\U0001F600", "\\EFI\\BOOT\\"} {
				c17Str(c, strings.Repeat(unitStr, n))
			}
		}
		c17Str(c, "")
		// a surrogate pair / a code unit with a zero low byte at every offset of a long string
		// (chunked or alignment-blind decoders fail only at particular offsets)
		for _, ch := range []string{"\U0001F600", "\u3000", "\u0100"} {
			for off := 0; off <= 300; off++ {
				c17Str(c, strings.Repeat("a", off)+ch+strings.Repeat("b", 300-off))
			}
		}
	}
}

// unwireBytes swaps between the textual (big-endian fields) and the wire (little-endian fields) byte
// order of a GUID; the swap is its own inverse.
func unwireBytes(b [16]byte) [16]byte {
	return [16]byte{b[3], b[2], b[1], b[0], b[5], b[4], b[7], b[6], b[8], b[9], b[10], b[11], b[12], b[13], b[14], b[15]}
}
