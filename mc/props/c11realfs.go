//go:build !verifsched

package props

import (
	"bytes"
	"fmt"
	"os"
	"path/filepath"
	"strings"

	"github.com/foxboron/go-uefi/efi/attr"
	"github.com/foxboron/go-uefi/efi/attributes"
	"github.com/foxboron/go-uefi/efivar"
	"github.com/foxboron/go-uefi/efivarfs"

	"verif/internal/hx"
)

// c11RealFS exercises the one part of the write path an in-memory filesystem cannot reach: the
// handling of the immutable inode flag (efivarfs marks variables immutable). On a real directory,
// for every combination of wrapper configuration {plain, CheckImmutable, UnsetImmutable, both in
// either order, one of them set twice} x file {absent, present, present and immutable} x APPEND_WRITE {off, on} x value
// {shorter, longer than what is there}: an immutable file is only written after the flag was cleared
// on request, the file is opened in append mode if and only if APPEND_WRITE is set (observed by
// where the one buffer lands), and a refused write leaves the file as it was. Skipped with a note
// where inode flags are not available.
func c11RealFS(c *hx.Ctx) {
	dir, err := os.MkdirTemp("", "verif-c11-efivars-")
	if err != nil {
		c.Note("no temporary directory: %v", err)
		return
	}
	defer func() {
		filepath.Walk(dir, func(p string, info os.FileInfo, err error) error {
			if err == nil && !info.IsDir() {
				attr.UnsetImmutable(p)
			}
			return nil
		})
		os.RemoveAll(dir)
	}()
	probe := filepath.Join(dir, "probe")
	os.WriteFile(probe, []byte("x"), 0644)
	fl, err := attr.GetAttr(probe)
	if err == nil {
		err = attr.SetAttr(probe, fl|attr.FS_IMMUTABLE_FL)
	}
	supported := err == nil
	if supported {
		if fh, oerr := os.OpenFile(probe, os.O_WRONLY, 0644); oerr == nil {
			fh.Close()
			supported = false
		}
		attr.UnsetImmutable(probe)
	}
	if !supported {
		c.Note("inode flags (immutable) cannot be set in %s: real-filesystem unit skipped", dir)
		return
	}
	old := attributes.Efivars
	attributes.Efivars = dir
	defer func() { attributes.Efivars = old }()
	g := unwire(ownerA)
	n := 0
	// the two options are independent switches: the order in which they are set, and setting one twice,
	// makes no difference
	for _, cfg := range []string{"plain", "CheckImmutable", "CheckImmutable+UnsetImmutable", "UnsetImmutable", "UnsetImmutable+CheckImmutable", "CheckImmutable+UnsetImmutable+CheckImmutable"} {
		for _, state := range []string{"absent", "present", "present and immutable"} {
			for _, at := range []uint32{0x07, 0x47} {
				for _, vl := range []int{3, 40} {
					if !c.Next() {
						continue
					}
					n++
					name := fmt.Sprintf("V%d", n)
					file := filepath.Join(dir, name+"-"+refFormat(g))
					existing := append([]byte{byte(at), 0, 0, 0}, bytes.Repeat([]byte{0xee}, 20)...)
					if state != "absent" {
						os.WriteFile(file, existing, 0644)
					} else {
						existing = nil
					}
					if state == "present and immutable" {
						f0, _ := attr.GetAttr(file)
						attr.SetAttr(file, f0|attr.FS_IMMUTABLE_FL)
					}
					fs := efivarfs.NewFS()
					switch cfg {
					case "CheckImmutable":
						fs.CheckImmutable()
					case "CheckImmutable+UnsetImmutable":
						fs.CheckImmutable().UnsetImmutable()
					case "UnsetImmutable":
						fs.UnsetImmutable()
					case "UnsetImmutable+CheckImmutable":
						fs.UnsetImmutable().CheckImmutable()
					case "CheckImmutable+UnsetImmutable+CheckImmutable":
						fs.CheckImmutable().UnsetImmutable().CheckImmutable()
					}
					val := fill(vl, 0x35)
					var werr error
					pn := hx.Try(func() {
						werr = fs.WriteVar(efivar.Efivar{Name: name, GUID: &g, Attributes: attributes.Attributes(at)}, rawval(val))
					})
					immutableNow := attr.IsImmutable(file) == attr.ErrIsImmutable
					attr.UnsetImmutable(file)
					got, _ := os.ReadFile(file)
					buf := append([]byte{byte(at), 0, 0, 0}, val...)
					d := map[string]any{"configuration": cfg, "file": state, "attributes": fmt.Sprintf("%#x", at), "value_len": vl, "error": fmt.Sprint(werr), "file_after": hx8(got)}
					bad := func(what string) {
						c.Outcome("violation")
						c.Violation("C11 write on a real directory (immutable-flag handling): "+what, d)
					}
					refuse := state == "present and immutable" && !(strings.Contains(cfg, "CheckImmutable") && strings.Contains(cfg, "UnsetImmutable"))
					switch {
					case pn != nil:
						bad("ends in " + pn.String())
					case refuse && (werr == nil || !bytes.Equal(got, existing) || !immutableNow):
						bad("an immutable variable that was not to be unlocked is written, changed, or loses its flag")
					case refuse:
						c.Outcome("refused-ok")
						c.Nontrivial([]byte(cfg), []byte(state), []byte{byte(at), byte(vl)})
					case werr != nil:
						bad("write fails")
					case immutableNow:
						bad("file is still immutable after a successful write")
					default:
						var want []byte
						if at&0x40 != 0 {
							want = append(append([]byte{}, existing...), buf...)
						} else {
							want = append([]byte{}, buf...)
							if len(existing) > len(buf) {
								want = append(want, existing[len(buf):]...) // no truncation on a plain directory
							}
						}
						if !bytes.Equal(got, want) {
							if at&0x40 != 0 {
								bad("the file was not opened in append mode although APPEND_WRITE is set (the buffer did not land behind the existing bytes)")
							} else {
								bad("the one buffer attributes||value did not land at the start of the file")
							}
						} else {
							c.Outcome("realfs-write-ok")
							c.Nontrivial([]byte(cfg), []byte(state), []byte{byte(at), byte(vl)})
						}
					}
				}
			}
		}
	}
}
