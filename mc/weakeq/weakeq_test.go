package weakeq

import (
	"hash/crc64"
	"testing"
)

func TestTwins(t *testing.T) {
	x := []byte("0123456789abcdef0123456789abcdef")
	tw := Twins(x)
	if len(tw) < 12 {
		t.Fatalf("only %d twins", len(tw))
	}
	tab := crc64.MakeTable(crc64.ECMA)
	for _, w := range tw {
		if w.Name == "the same CRC-64 (ECMA)" && crc64.Checksum(w.Value, tab) != crc64.Checksum(x, tab) {
			t.Fatal("crc64 twin does not collide")
		}
	}
}
