// Package weakeq produces, for a given byte string x, other byte strings of the same length that a
// *weak* equality would take for x: equal CRC-32 / CRC-64 (every standard polynomial), equal XOR
// fold to 8, 16, 32 or 64 bits, equal byte sum and multiset, equal prefix, equal suffix, equal up
// to the first NUL. A comparison that is really an equality distinguishes all of them from x.
// The CRC and XOR collisions are solved, not searched for: for a fixed length these functions are
// affine over GF(2), so a non-zero difference d with h(x^d) == h(x) is a kernel vector of the
// linear part, found by Gaussian elimination over the unit vectors.
package weakeq

import (
	"hash/crc32"
	"hash/crc64"
	"math/big"
)

type Twin struct {
	Name  string // the weak equality under which Value equals the original
	Value []byte
}

// affine finds y != x, len(y) == len(x), with h(y) == h(x) for a function h that is affine over GF(2).
func affine(x []byte, h func([]byte) uint64) []byte {
	n := len(x) * 8
	base := h(x)
	type row struct {
		v    uint64
		comb *big.Int
	}
	var basis [64]*row
	buf := append([]byte{}, x...)
	for i := 0; i < n; i++ {
		buf[i/8] ^= 1 << (i % 8)
		v := h(buf) ^ base
		buf[i/8] ^= 1 << (i % 8)
		comb := new(big.Int).SetBit(new(big.Int), i, 1)
		for b := 63; b >= 0 && v != 0; b-- {
			if v>>uint(b)&1 == 0 {
				continue
			}
			if basis[b] == nil {
				basis[b] = &row{v, comb}
				v = 0
				comb = nil
				break
			}
			v ^= basis[b].v
			comb = new(big.Int).Xor(comb, basis[b].comb)
		}
		if comb != nil && v == 0 {
			y := append([]byte{}, x...)
			for j := 0; j < n; j++ {
				if comb.Bit(j) == 1 {
					y[j/8] ^= 1 << (j % 8)
				}
			}
			return y
		}
	}
	return nil
}

func fold(width int) func([]byte) uint64 {
	return func(b []byte) uint64 {
		var acc uint64
		for i, c := range b {
			acc ^= uint64(c) << (8 * uint(i%width))
		}
		return acc
	}
}

// Twins returns the weak-equality twins of x (len(x) >= 9 gives all of them).
func Twins(x []byte) []Twin {
	var out []Twin
	add := func(name string, y []byte) {
		if y != nil && string(y) != string(x) && len(y) == len(x) {
			out = append(out, Twin{name, y})
		}
	}
	for _, t := range []struct {
		name string
		poly uint32
	}{{"CRC-32 (IEEE)", crc32.IEEE}, {"CRC-32C (Castagnoli)", crc32.Castagnoli}, {"CRC-32K (Koopman)", crc32.Koopman}} {
		tab := crc32.MakeTable(t.poly)
		add("the same "+t.name, affine(x, func(b []byte) uint64 { return uint64(crc32.Checksum(b, tab)) }))
	}
	for _, t := range []struct {
		name string
		poly uint64
	}{{"CRC-64 (ISO)", crc64.ISO}, {"CRC-64 (ECMA)", crc64.ECMA}} {
		tab := crc64.MakeTable(t.poly)
		add("the same "+t.name, affine(x, func(b []byte) uint64 { return crc64.Checksum(b, tab) }))
	}
	for _, w := range []int{1, 2, 4, 8} {
		add("the same XOR of all "+[]string{"", "bytes", "16-bit words", "", "32-bit words", "", "", "", "64-bit words"}[w], affine(x, fold(w)))
	}
	// two different bytes swapped: same byte sum, same multiset, same XOR
	for i := 1; i < len(x); i++ {
		if x[i] != x[0] {
			y := append([]byte{}, x...)
			y[0], y[i] = y[i], y[0]
			add("the same bytes in another order", y)
			break
		}
	}
	if len(x) > 1 {
		y := append([]byte{}, x...)
		y[len(y)-1] ^= 0x01
		add("a difference only in the last bit", y)
		z := append([]byte{}, x...)
		z[0] ^= 0x80
		add("a difference only in the first bit", z)
		m := append([]byte{}, x...)
		m[len(m)/2] ^= 0x10
		add("a difference only in one bit in the middle", m)
	}
	if len(x) > 4 {
		y := append([]byte{}, x...)
		for i := 4; i < len(y); i++ {
			y[i] ^= 0x5a
		}
		add("only the first four bytes in common", y)
		z := append([]byte{}, x...)
		for i := 0; i < len(z)-4; i++ {
			z[i] ^= 0x5a
		}
		add("only the last four bytes in common", z)
	}
	for i, c := range x {
		if c == 0 && i+1 < len(x) {
			y := append([]byte{}, x...)
			y[len(y)-1] ^= 0xff
			if i+1 < len(y)-1 {
				y[i+1] ^= 0xff
			}
			add("the same bytes up to the first NUL", y)
			break
		}
	}
	return out
}
