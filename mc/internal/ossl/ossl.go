// Package ossl drives the openssl command line tool (independent producer and
// verifier of PKCS#7 / CMS blobs). Every call works in a private temporary
// directory that is removed afterwards.
package ossl

import (
	"bytes"
	"crypto/rsa"
	"crypto/x509"
	"encoding/pem"
	"fmt"
	"os"
	"os/exec"
	"path/filepath"
)

func Available() bool {
	_, err := exec.LookPath("openssl")
	return err == nil
}

type Session struct {
	Dir string
}

func New() (*Session, error) {
	d, err := os.MkdirTemp("", "verif-ossl-")
	if err != nil {
		return nil, err
	}
	return &Session{Dir: d}, nil
}

func (s *Session) Close() { os.RemoveAll(s.Dir) }

func (s *Session) Write(name string, b []byte) string {
	p := filepath.Join(s.Dir, name)
	os.WriteFile(p, b, 0o600)
	return p
}

func (s *Session) WriteKey(name string, k *rsa.PrivateKey) string {
	der, _ := x509.MarshalPKCS8PrivateKey(k)
	return s.Write(name, pem.EncodeToMemory(&pem.Block{Type: "PRIVATE KEY", Bytes: der}))
}

func (s *Session) WriteCert(name string, c *x509.Certificate) string {
	return s.Write(name, pem.EncodeToMemory(&pem.Block{Type: "CERTIFICATE", Bytes: c.Raw}))
}

// Run executes openssl with args; returns stdout, stderr and the error.
func (s *Session) Run(args ...string) ([]byte, string, error) {
	cmd := exec.Command("openssl", args...)
	cmd.Dir = s.Dir
	var out, errb bytes.Buffer
	cmd.Stdout = &out
	cmd.Stderr = &errb
	err := cmd.Run()
	return out.Bytes(), errb.String(), err
}

// Sign produces a DER SignedData with `openssl smime|cms -sign`.
func (s *Session) Sign(tool string, key *rsa.PrivateKey, cert *x509.Certificate, content []byte, extra ...string) ([]byte, error) {
	kp := s.WriteKey("k.pem", key)
	cp := s.WriteCert("c.pem", cert)
	in := s.Write("content.bin", content)
	out := filepath.Join(s.Dir, "out.der")
	os.Remove(out)
	args := []string{tool, "-sign", "-binary", "-md", "sha256", "-outform", "DER"}
	// "FIRST" followed by four arguments (-signer X -inkey Y) names a co-signer before the signer proper
	for len(extra) >= 5 && extra[0] == "FIRST" {
		args = append(args, extra[1:5]...)
		extra = extra[5:]
	}
	args = append(args, "-signer", cp, "-inkey", kp, "-in", in, "-out", out)
	args = append(args, extra...)
	if _, e, err := s.Run(args...); err != nil {
		return nil, fmt.Errorf("openssl %v: %v: %s", args, err, e)
	}
	return os.ReadFile(out)
}

// Resign adds a signer to an existing DER SignedData with `openssl smime|cms -resign` (the tool may
// differ from the one that made the message: a message that went through two producers).
func (s *Session) Resign(tool string, blob []byte, key *rsa.PrivateKey, cert *x509.Certificate, extra ...string) ([]byte, error) {
	kp := s.WriteKey("rk.pem", key)
	cp := s.WriteCert("rc.pem", cert)
	in := s.Write("resign-in.der", blob)
	out := filepath.Join(s.Dir, "resign-out.der")
	os.Remove(out)
	args := []string{tool, "-resign", "-binary", "-md", "sha256", "-inform", "DER", "-outform", "DER", "-in", in, "-signer", cp, "-inkey", kp, "-out", out}
	args = append(args, extra...)
	if _, e, err := s.Run(args...); err != nil {
		return nil, fmt.Errorf("openssl %v: %v: %s", args, err, e)
	}
	return os.ReadFile(out)
}

// Verify runs `openssl smime|cms -verify -noverify` on a DER blob with the
// given detached content (nil = content is encapsulated); it returns whether
// openssl reports success.
func (s *Session) Verify(tool string, blob []byte, cert *x509.Certificate, content []byte) (bool, string) {
	bp := s.Write("v.der", blob)
	cp := s.WriteCert("vc.pem", cert)
	args := []string{tool, "-verify", "-binary", "-inform", "DER", "-in", bp, "-noverify", "-certfile", cp, "-nointern", "-out", filepath.Join(s.Dir, "v.out")}
	if content != nil {
		args = append(args, "-content", s.Write("vcontent.bin", content))
	}
	_, e, err := s.Run(args...)
	return err == nil, e
}
