// Package recfs is an afero.Fs that records every call made on the filesystem
// and on every file it hands out, and can inject faults at chosen calls.
package recfs

import (
	"errors"
	"fmt"
	"io"
	"io/fs"
	"os"
	"syscall"
	"time"

	"github.com/spf13/afero"
)

type Event struct {
	Op    string // OpenFile Open Create Stat Remove ... ; file ops prefixed "f."
	Name  string
	Flags int
	Perm  os.FileMode
	Data  []byte // written buffer
	N     int    // read/write count requested
	Err   string
}

func (e Event) String() string {
	s := e.Op + "(" + e.Name
	if e.Op == "OpenFile" {
		s += fmt.Sprintf(", flags=%#x, perm=%o", e.Flags, e.Perm)
	}
	if e.Data != nil {
		s += fmt.Sprintf(", %d bytes", len(e.Data))
	}
	s += ")"
	if e.Err != "" {
		s += " -> " + e.Err
	}
	return s
}

// Fault decides, for the k-th dependency call (1-based, counted over all
// recorded calls), whether it fails. kind: "err" returns an error, "short"
// performs a short read/write with nil error.
type Fault func(k int, op string) (kind string)

var ErrInjected = errors.New("injected fault")

// fault kinds that make the call fail: "err" (a plain error value), and errno values as the
// operating system reports them (wrapped in *os.PathError): "eagain", "eintr" (both "temporary"),
// "enospc", "eio", "enoent", "notexist".
func isErr(k string) bool { return errOf(k) != nil }

func errOf(k string) error {
	switch k {
	case "err":
		return ErrInjected
	case "eagain":
		return &os.PathError{Op: "write", Path: "efivarfs", Err: syscall.EAGAIN}
	case "eintr":
		return &os.PathError{Op: "write", Path: "efivarfs", Err: syscall.EINTR}
	case "enospc":
		return &os.PathError{Op: "write", Path: "efivarfs", Err: syscall.ENOSPC}
	case "eio":
		return syscall.EIO
	case "enoent": // "no such file" reported for an operation on a file that is open (a variable deleted meanwhile)
		return &os.PathError{Op: "read", Path: "efivarfs", Err: syscall.ENOENT}
	case "notexist": // an error that merely wraps fs.ErrNotExist
		return fmt.Errorf("efivarfs: stale handle: %w", fs.ErrNotExist)
	}
	return nil
}

type Fs struct {
	Inner  afero.Fs
	Events []Event
	Fault  Fault
	calls  int
}

func New() *Fs { return &Fs{Inner: afero.NewMemMapFs()} }

func (r *Fs) rec(e Event) (int, string) {
	r.calls++
	kind := ""
	if r.Fault != nil {
		kind = r.Fault(r.calls, e.Op)
	}
	if isErr(kind) {
		e.Err = errOf(kind).Error()
	}
	r.Events = append(r.Events, e)
	return len(r.Events) - 1, kind
}

func (r *Fs) Calls() int { return r.calls }

func (r *Fs) Name() string { return r.Inner.Name() }

func (r *Fs) Create(name string) (afero.File, error) {
	_, k := r.rec(Event{Op: "Create", Name: name})
	if isErr(k) {
		return nil, errOf(k)
	}
	f, err := r.Inner.Create(name)
	if err != nil {
		return nil, err
	}
	return &File{File: f, fs: r, name: name}, nil
}
func (r *Fs) Mkdir(name string, perm os.FileMode) error {
	_, k := r.rec(Event{Op: "Mkdir", Name: name})
	if isErr(k) {
		return errOf(k)
	}
	return r.Inner.Mkdir(name, perm)
}
func (r *Fs) MkdirAll(path string, perm os.FileMode) error {
	_, k := r.rec(Event{Op: "MkdirAll", Name: path})
	if isErr(k) {
		return errOf(k)
	}
	return r.Inner.MkdirAll(path, perm)
}
func (r *Fs) Open(name string) (afero.File, error) {
	_, k := r.rec(Event{Op: "Open", Name: name})
	if isErr(k) {
		return nil, errOf(k)
	}
	f, err := r.Inner.Open(name)
	if err != nil {
		return nil, err
	}
	return &File{File: f, fs: r, name: name}, nil
}
func (r *Fs) OpenFile(name string, flag int, perm os.FileMode) (afero.File, error) {
	_, k := r.rec(Event{Op: "OpenFile", Name: name, Flags: flag, Perm: perm})
	if isErr(k) {
		return nil, errOf(k)
	}
	f, err := r.Inner.OpenFile(name, flag, perm)
	if err != nil {
		return nil, err
	}
	return &File{File: f, fs: r, name: name}, nil
}
func (r *Fs) Remove(name string) error {
	_, k := r.rec(Event{Op: "Remove", Name: name})
	if isErr(k) {
		return errOf(k)
	}
	return r.Inner.Remove(name)
}
func (r *Fs) RemoveAll(path string) error {
	_, k := r.rec(Event{Op: "RemoveAll", Name: path})
	if isErr(k) {
		return errOf(k)
	}
	return r.Inner.RemoveAll(path)
}
func (r *Fs) Rename(o, n string) error {
	_, k := r.rec(Event{Op: "Rename", Name: o + "->" + n})
	if isErr(k) {
		return errOf(k)
	}
	return r.Inner.Rename(o, n)
}
func (r *Fs) Stat(name string) (os.FileInfo, error) {
	_, k := r.rec(Event{Op: "Stat", Name: name})
	if isErr(k) {
		return nil, errOf(k)
	}
	return r.Inner.Stat(name)
}
func (r *Fs) Chmod(name string, mode os.FileMode) error {
	r.rec(Event{Op: "Chmod", Name: name})
	return r.Inner.Chmod(name, mode)
}
func (r *Fs) Chown(name string, uid, gid int) error {
	r.rec(Event{Op: "Chown", Name: name})
	return r.Inner.Chown(name, uid, gid)
}
func (r *Fs) Chtimes(name string, a, m time.Time) error {
	r.rec(Event{Op: "Chtimes", Name: name})
	return r.Inner.Chtimes(name, a, m)
}

type File struct {
	afero.File
	fs   *Fs
	name string
}

func (f *File) Close() error {
	_, k := f.fs.rec(Event{Op: "f.Close", Name: f.name})
	err := f.File.Close()
	if isErr(k) {
		return errOf(k)
	}
	return err
}
func (f *File) Read(p []byte) (int, error) {
	_, k := f.fs.rec(Event{Op: "f.Read", Name: f.name, N: len(p)})
	if isErr(k) {
		return 0, errOf(k)
	}
	if k == "short" && len(p) > 1 {
		return f.File.Read(p[:len(p)/2])
	}
	if k == "eof" { // the file ends here although its size said otherwise
		return 0, io.EOF
	}
	return f.File.Read(p)
}
func (f *File) ReadAt(p []byte, off int64) (int, error) {
	_, k := f.fs.rec(Event{Op: "f.ReadAt", Name: f.name, N: len(p)})
	if isErr(k) {
		return 0, errOf(k)
	}
	return f.File.ReadAt(p, off)
}
func (f *File) Seek(o int64, w int) (int64, error) {
	f.fs.rec(Event{Op: "f.Seek", Name: f.name})
	return f.File.Seek(o, w)
}
func (f *File) Write(p []byte) (int, error) {
	_, k := f.fs.rec(Event{Op: "f.Write", Name: f.name, Data: append([]byte{}, p...)})
	if isErr(k) {
		return 0, errOf(k)
	}
	if k == "short" && len(p) > 0 {
		n, err := f.File.Write(p[:len(p)/2])
		return n, err
	}
	return f.File.Write(p)
}
func (f *File) WriteAt(p []byte, off int64) (int, error) {
	_, k := f.fs.rec(Event{Op: "f.WriteAt", Name: f.name, Data: append([]byte{}, p...)})
	if isErr(k) {
		return 0, errOf(k)
	}
	return f.File.WriteAt(p, off)
}

// WriteString is a write(2) like Write; it is recorded and faulted as one.
func (f *File) WriteString(s string) (int, error) { return f.Write([]byte(s)) }
func (f *File) Truncate(size int64) error {
	_, k := f.fs.rec(Event{Op: "f.Truncate", Name: f.name, N: int(size)})
	if isErr(k) {
		return errOf(k)
	}
	return f.File.Truncate(size)
}
func (f *File) Sync() error {
	_, k := f.fs.rec(Event{Op: "f.Sync", Name: f.name})
	if isErr(k) {
		return errOf(k)
	}
	return f.File.Sync()
}
func (f *File) Stat() (os.FileInfo, error) {
	_, k := f.fs.rec(Event{Op: "f.Stat", Name: f.name})
	if isErr(k) {
		return nil, errOf(k)
	}
	return f.File.Stat()
}
