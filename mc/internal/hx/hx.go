// Package hx is the execution harness shared by all property checks: a parent
// process that splits a bounded enumeration into units, runs every unit in a
// sandboxed worker process (address-space limit, liveness watchdog), classifies
// worker death, merges coverage counters and writes evidence, replays and the
// VIOLATION / KNOWN-FINDING lines.
package hx

import (
	"encoding/binary"
	"encoding/json"
	"fmt"
	"hash/fnv"
	"os"
	"runtime"
	"runtime/debug"
	"sort"
	"strings"
	"sync/atomic"
	"syscall"
	"time"
	"unicode"
	"verif/shim/globals"
)

// Prop describes one property check.
type Prop struct {
	ID          string
	Level       string // exploration | model_checking | fault_enumeration
	Rule        string
	Assumptions []string
	// Units lists the independent work units of the enumeration for a tier.
	Units func(tier string) []string
	// Run executes one unit in a worker process.
	Run func(c *Ctx, tier, unit string)
	// Bound describes alphabet and bound for the evidence file.
	Bound func(tier string) map[string]any
	// Budget is the wall-clock budget after which no further units are started
	// (the run then reports exhaustive:false and still exits 0).
	Budget func(tier string) time.Duration
	// SearchUnit reports whether a unit is a state search holding its visited set in memory: an
	// out-of-memory death of such a unit is the search's budget (unit reported incomplete), not a finding.
	SearchUnit func(unit string) bool
	// MemKB is the address-space limit of a worker (ulimit -v), default 4 GiB.
	MemKB int
	// MemKBUnit, if set and non-zero for a unit, overrides MemKB for that unit (a unit that has to
	// hold several GiB of well-formed input).
	MemKBUnit func(unit string) int
	// Serial forces one worker at a time (for units that are parallel inside).
	Serial bool
}

var registry = map[string]*Prop{}

func Register(p *Prop)       { registry[p.ID] = p }
func Lookup(id string) *Prop { return registry[id] }
func IDs() []string {
	var s []string
	for k := range registry {
		s = append(s, k)
	}
	sort.Strings(s)
	return s
}

// Violation is one observed property violation.
type Violation struct {
	Sig    string `json:"signature"` // stable identification: what fails (entry point, input class, observation)
	Unit   string `json:"unit"`
	Case   uint64 `json:"case"`
	Detail any    `json:"detail"` // inputs (hex), operation list, schedule, both observations
}

// Result is what a worker reports for one unit.
type Result struct {
	Unit       string            `json:"unit"`
	Complete   bool              `json:"complete"`
	Evals      uint64            `json:"evals"`
	Nontrivial uint64            `json:"nontrivial"`
	Outcomes   map[string]uint64 `json:"outcomes"`
	Counters   map[string]uint64 `json:"counters"`
	Samples    []any             `json:"samples"`
	Violations []Violation       `json:"violations"`
	Notes      []string          `json:"notes"`
}

// Ctx is handed to Prop.Run inside a worker.
type Ctx struct {
	Tier     string
	Unit     string
	Seed     int64
	res      Result
	state    []byte // mmap'd progress word
	idx      uint64
	skip     map[uint64]bool
	only     int64
	expCalls uint64
	deadline time.Time
	nt       map[uint64]struct{}
	maxViol  int
	expired  bool
	// NoOnly is set by units whose cases depend on each other (state-space
	// searches): skip/only filtering is disabled and replays re-run the unit.
	NoOnly bool
}

// Tick tells the parent's watchdog that the worker is alive (for long steps
// that do not advance the case index).
func (c *Ctx) Tick() {
	if c.state != nil {
		binary.LittleEndian.PutUint64(c.state[8:], binary.LittleEndian.Uint64(c.state[8:])+1)
	}
}

// Label publishes a short description of the current case to the parent, so
// that a worker death can be described without re-running it.
func (c *Ctx) Label(s string) {
	if c.state == nil {
		return
	}
	if len(s) > StateSize-18 {
		s = s[:StateSize-18]
	}
	binary.LittleEndian.PutUint16(c.state[16:], uint16(len(s)))
	copy(c.state[18:], s)
}

// StateSize is the size of the shared progress record: case index, heartbeat,
// label length, label.
const StateSize = 512

// Next announces the next case of the unit's deterministic enumeration. It
// returns false when the case must not be executed (it killed a previous
// worker, or a replay asked for another case). The index is published to the
// parent before the case runs, so that a dying worker is attributable.
func (c *Ctx) Next() bool {
	c.idx++
	if c.state != nil {
		binary.LittleEndian.PutUint64(c.state, c.idx)
	}
	if c.NoOnly {
		c.res.Evals++
		return true
	}
	if c.only >= 0 && uint64(c.only) != c.idx {
		return false
	}
	if c.skip[c.idx] {
		return false
	}
	c.res.Evals++
	return true
}

// Index is the index of the current case.
func (c *Ctx) Index() uint64 { return c.idx }

// Expired reports whether the unit's deadline has passed; enumerations poll it
// at a coarse grain and stop early (the unit is then reported incomplete).
func (c *Ctx) Expired() bool {
	if c.expired {
		return true
	}
	// the clock is looked at on every 256th case and on every 16th call (units whose cases are long
	// call Expired far more rarely than they call Next, and not at multiples of anything)
	c.expCalls++
	if !c.deadline.IsZero() && (c.idx%256 == 0 || c.expCalls%16 == 0) && time.Now().After(c.deadline) {
		c.expired = true
	}
	return c.expired
}

// Nontrivial records that the current case reached the interesting branch of
// the oracle; key is a canonical form of the case, distinct keys are counted.
func (c *Ctx) Nontrivial(key ...[]byte) {
	h := fnv.New64a()
	for _, k := range key {
		var l [4]byte
		binary.LittleEndian.PutUint32(l[:], uint32(len(k)))
		h.Write(l[:])
		h.Write(k)
	}
	c.nt[h.Sum64()] = struct{}{}
}

func (c *Ctx) Outcome(name string)         { c.res.Outcomes[name]++ }
func (c *Ctx) Count(name string, n uint64) { c.res.Counters[name] += n }
func (c *Ctx) Max(name string, n uint64) {
	if c.res.Counters[name] < n {
		c.res.Counters[name] = n
	}
}
func (c *Ctx) Note(format string, a ...any) {
	if len(c.res.Notes) < 20 {
		c.res.Notes = append(c.res.Notes, fmt.Sprintf(format, a...))
	}
}

// Sample keeps the first few samples of a unit.
func (c *Ctx) Sample(v any) {
	if len(c.res.Samples) < 3 {
		c.res.Samples = append(c.res.Samples, v)
	}
}

// Violation records a violation of the property by the current case.
func (c *Ctx) Violation(sig string, detail any) {
	c.res.Outcomes["VIOLATION"]++
	// keep the first instance of every signature, and at most maxViol in total
	for _, v := range c.res.Violations {
		if v.Sig == sig {
			return
		}
	}
	if len(c.res.Violations) >= c.maxViol {
		return
	}
	c.res.Violations = append(c.res.Violations, Violation{Sig: sig, Unit: c.Unit, Case: c.idx, Detail: detail})
}

// Panic is a recovered panic.
type Panic struct {
	Val   any
	Stack string
	Exit  bool // raised by the log.Fatal / os.Exit shim
	Site  string
}

func (p *Panic) String() string {
	k := "panic"
	if p.Exit {
		k = "exit"
	}
	return fmt.Sprintf("%s at %s: %s", k, p.Site, normMsg(fmt.Sprint(p.Val)))
}

// normMsg removes the variable parts (numbers, bracketed values, quoted text)
// of a panic message so that one defect has one signature.
func normMsg(m string) string {
	var sb strings.Builder
	depth := 0
	for _, r := range m {
		switch {
		case r == '[':
			depth++
		case r == ']':
			if depth > 0 {
				depth--
			}
		case depth > 0:
		case r >= '0' && r <= '9':
			sb.WriteByte('N')
		default:
			sb.WriteRune(r)
		}
	}
	out := sb.String()
	for strings.Contains(out, "NN") {
		out = strings.ReplaceAll(out, "NN", "N")
	}
	if len(out) > 100 {
		out = out[:100]
	}
	return strings.TrimSpace(out)
}

// Try runs f and converts a panic into a value.
func Try(f func()) (p *Panic) {
	defer func() {
		if r := recover(); r != nil {
			st := string(debug.Stack())
			p = &Panic{Val: fmt.Sprint(r), Stack: st}
			if e, ok := r.(interface{ Error() string }); ok && strings.HasPrefix(e.Error(), "log.Fatal: ") {
				p.Exit = true
			}
			p.Site = site(st)
		}
	}()
	f()
	return nil
}

// site extracts the innermost go-uefi function on the stack (function name,
// not line number, so that unrelated edits do not change the signature).
func site(stack string) string {
	lines := strings.Split(stack, "\n")
	for _, l := range lines {
		if strings.HasPrefix(l, "github.com/foxboron/go-uefi/") {
			l = strings.TrimPrefix(l, "github.com/foxboron/go-uefi/")
			if i := strings.LastIndex(l, "("); i > 0 {
				l = l[:i]
			}
			return l
		}
	}
	return "?"
}

// AllocDelta measures bytes allocated by f (cumulative, single-threaded worker).
func AllocDelta(f func()) uint64 {
	var m0, m1 runtime.MemStats
	runtime.ReadMemStats(&m0)
	f()
	runtime.ReadMemStats(&m1)
	return m1.TotalAlloc - m0.TotalAlloc
}

var allocCounter atomic.Uint64

// ---- worker side ----

// WorkerMain runs one unit; invoked by the parent through the check binary.
func WorkerMain(id, tier, unit, statePath, outPath string, skip []uint64, only int64, deadlineUnix int64, seed int64) int {
	p := Lookup(id)
	if p == nil {
		fmt.Fprintln(os.Stderr, "unknown property", id)
		return 2
	}
	c := &Ctx{Tier: tier, Unit: unit, Seed: seed, skip: map[uint64]bool{}, only: only, nt: map[uint64]struct{}{}, maxViol: 50}
	c.res = Result{Unit: unit, Outcomes: map[string]uint64{}, Counters: map[string]uint64{}}
	for _, s := range skip {
		c.skip[s] = true
	}
	if deadlineUnix > 0 {
		c.deadline = time.Unix(deadlineUnix, 0)
	}
	if statePath != "" {
		f, err := os.OpenFile(statePath, os.O_RDWR|os.O_CREATE, 0o600)
		if err == nil {
			f.Truncate(StateSize)
			m, err := syscall.Mmap(int(f.Fd()), 0, StateSize, syscall.PROT_READ|syscall.PROT_WRITE, syscall.MAP_SHARED)
			if err == nil {
				c.state = m
			}
			f.Close()
		}
	}
	before := globals.Snapshot()
	p.Run(c, tier, unit)
	// the library's package-level variables (exported tables, OIDs, GUIDs, error values) after the
	// unit are what they were before it; the handles a caller configures are not judged
	if diff := globals.Diff(before, globals.Snapshot()); len(diff) > 0 {
		var changed []string
		for _, k := range diff {
			// judged: exported variables (what other packages and every later caller see by name). An
			// unexported variable that changes may be a lazily built table or a memo: counted, not judged.
			name := k[strings.LastIndex(k, ".")+1:]
			if callerConfigured[k] {
				continue
			}
			if name == "" || !unicode.IsUpper([]rune(name)[0]) {
				c.Count("unexported_package_variables_changed(not judged)", 1)
				continue
			}
			changed = append(changed, k)
		}
		if len(changed) > 0 {
			c.Violation(id+" an operation changed package-level state of the library that later calls depend on: "+strings.Join(changed, ", "), map[string]any{"unit": unit, "variables": changed})
		}
	}
	c.res.Complete = !c.expired
	c.res.Nontrivial = uint64(len(c.nt))
	b, err := json.Marshal(&c.res)
	if err != nil {
		fmt.Fprintln(os.Stderr, "marshal result:", err)
		return 2
	}
	if err := os.WriteFile(outPath+".tmp", b, 0o600); err != nil {
		return 2
	}
	// distinct-key hashes, merged by the parent
	nb := make([]byte, 0, 8*len(c.nt))
	for h := range c.nt {
		nb = binary.LittleEndian.AppendUint64(nb, h)
	}
	os.WriteFile(outPath+".nt", nb, 0o600)
	os.Rename(outPath+".tmp", outPath)
	return 0
}

// callerConfigured: package-level variables that exist to be set by the caller (the harness sets them).
var callerConfigured = map[string]bool{
	"github.com/foxboron/go-uefi/efi/fs.Fs":              true,
	"github.com/foxboron/go-uefi/efi/attributes.Efivars": true,
}
