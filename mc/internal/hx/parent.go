package hx

import (
	"bytes"
	"crypto/sha256"
	"encoding/binary"
	"encoding/hex"
	"encoding/json"
	"fmt"
	"os"
	"os/exec"
	"path/filepath"
	"runtime"
	"sort"
	"strconv"
	"strings"
	"sync"
	"time"
)

// VerifDir is where evidence, replays and known_findings.json live: the
// directory of run.sh (so that a snapshot run writes into its snapshot).
var VerifDir = func() string {
	if d := os.Getenv("VERIF_DIR"); d != "" {
		return d
	}
	return "/verif"
}()

// OutDir is where evidence and replays are written (VerifDir unless a mutant/seed
// driver redirects it).
var OutDir = func() string {
	if d := os.Getenv("VERIF_OUT_DIR"); d != "" {
		return d
	}
	return VerifDir
}()

type death struct {
	Unit   string `json:"unit"`
	Case   uint64 `json:"case"`
	Kind   string `json:"kind"` // oom | hang | crash | stack-overflow | deadlock
	Label  string `json:"label"`
	Stderr string `json:"stderr_tail"`
}

type knownFile struct {
	Findings []struct {
		Property  string `json:"property"`
		Signature string `json:"signature"`
		What      string `json:"what"`
	} `json:"findings"`
	Fixed []string `json:"fixed"`
}

type unitRun struct {
	res    *Result
	deaths []death
	gaveUp bool
	ntPath string
}

func self() string {
	e, err := os.Executable()
	if err != nil {
		return os.Args[0]
	}
	return e
}

func hangTimeout() time.Duration {
	if s := os.Getenv("VERIF_HANG_S"); s != "" {
		if n, err := strconv.Atoi(s); err == nil {
			return time.Duration(n) * time.Second
		}
	}
	return 120 * time.Second
}

// runWorker executes one unit in a sandboxed child and classifies its end.
func runWorker(p *Prop, tier, unit, tmp string, n int, skip []uint64, only int64, deadline time.Time, seed int64) (*Result, *death) {
	st := filepath.Join(tmp, fmt.Sprintf("u%d.state", n))
	out := filepath.Join(tmp, fmt.Sprintf("u%d.json", n))
	os.Remove(out)
	os.Remove(out + ".nt")
	os.WriteFile(st, make([]byte, StateSize), 0o600)
	mem := p.MemKB
	if mem == 0 {
		mem = 4 << 20 // 4 GiB of address space
	}
	if p.MemKBUnit != nil {
		if m := p.MemKBUnit(unit); m != 0 {
			mem = m
		}
	}
	var sk []string
	for _, s := range skip {
		sk = append(sk, strconv.FormatUint(s, 10))
	}
	dl := int64(0)
	if !deadline.IsZero() {
		dl = deadline.Unix()
	}
	args := []string{"-c", fmt.Sprintf("ulimit -v %d; exec \"$0\" \"$@\"", mem), self(),
		"--worker", p.ID, "--tier", tier, "--unit", unit, "--state", st, "--out", out,
		"--skip", strings.Join(sk, ","), "--only", strconv.FormatInt(only, 10),
		"--deadline", strconv.FormatInt(dl, 10), "--seed", strconv.FormatInt(seed, 10)}
	cmd := exec.Command("/bin/sh", args...)
	var stderr bytes.Buffer
	cmd.Stderr = &tailWriter{buf: &stderr, max: 16384}
	cmd.Stdout = os.Stderr
	cmd.Env = append(os.Environ(), "GOMAXPROCS=2", "GOTRACEBACK=single")
	if err := cmd.Start(); err != nil {
		return nil, &death{Unit: unit, Kind: "spawn-failed", Stderr: err.Error()}
	}
	done := make(chan error, 1)
	go func() { done <- cmd.Wait() }()
	var last [16]byte
	lastChange := time.Now()
	hung := false
	tick := time.NewTicker(2 * time.Second)
	defer tick.Stop()
	var werr error
loop:
	for {
		select {
		case werr = <-done:
			break loop
		case <-tick.C:
			b, _ := os.ReadFile(st)
			var cur [16]byte
			copy(cur[:], b)
			if cur != last {
				last = cur
				lastChange = time.Now()
			} else if time.Since(lastChange) > hangTimeout() {
				hung = true
				cmd.Process.Kill()
				werr = <-done
				break loop
			}
		}
	}
	if b, err := os.ReadFile(out); err == nil && werr == nil {
		var r Result
		if json.Unmarshal(b, &r) == nil {
			return &r, nil
		}
	}
	// death: attribute to the case that was running
	b, _ := os.ReadFile(st)
	d := &death{Unit: unit, Stderr: stderr.String()}
	if len(b) >= 18 {
		d.Case = binary.LittleEndian.Uint64(b)
		l := int(binary.LittleEndian.Uint16(b[16:]))
		if 18+l <= len(b) {
			d.Label = string(b[18 : 18+l])
		}
	}
	s := d.Stderr
	switch {
	case hung:
		d.Kind = "hang"
	case strings.Contains(s, "out of memory") || strings.Contains(s, "cannot allocate memory"):
		d.Kind = "oom"
	case strings.Contains(s, "stack overflow") || strings.Contains(s, "stack exceeds"):
		d.Kind = "stack-overflow"
	case strings.Contains(s, "all goroutines are asleep"):
		d.Kind = "deadlock"
	default:
		d.Kind = "crash"
	}
	if len(d.Stderr) > 1500 {
		d.Stderr = d.Stderr[:1500]
	}
	return nil, d
}

type tailWriter struct {
	buf *bytes.Buffer
	max int
}

func (t *tailWriter) Write(p []byte) (int, error) {
	if t.buf.Len() < t.max {
		t.buf.Write(p)
	}
	return len(p), nil
}

// ParentMain runs a whole check and returns the process exit code.
func ParentMain(id, tier string, seed int64) int {
	p := Lookup(id)
	if p == nil {
		fmt.Fprintln(os.Stderr, "unknown property", id)
		return 2
	}
	start := time.Now()
	tmp, err := os.MkdirTemp("", "verif-"+id+"-")
	if err != nil {
		fmt.Fprintln(os.Stderr, err)
		return 2
	}
	defer os.RemoveAll(tmp)
	units := p.Units(tier)
	budget := 10 * time.Minute
	if p.Budget != nil {
		budget = p.Budget(tier)
	}
	if s := os.Getenv("VERIF_BUDGET_S"); s != "" {
		if n, err := strconv.Atoi(s); err == nil {
			budget = time.Duration(n) * time.Second
		}
	}
	deadline := start.Add(budget)
	par := runtime.NumCPU()
	if p.Serial {
		par = 1
	}
	if s := os.Getenv("VERIF_PAR"); s != "" {
		if n, err := strconv.Atoi(s); err == nil && n > 0 {
			par = n
		}
	}
	// VERIF_SEED only rotates the order in which units are started.
	order := make([]int, len(units))
	for i := range order {
		order[i] = i
	}
	if seed != 0 && len(units) > 1 {
		r := int(uint64(seed) % uint64(len(units)))
		order = append(order[r:], order[:r]...)
	}
	runs := make([]unitRun, len(units))
	var notStarted int
	var mu sync.Mutex
	var wg sync.WaitGroup
	sem := make(chan struct{}, par)
	for _, ui := range order {
		if time.Now().After(deadline) {
			mu.Lock()
			notStarted++
			mu.Unlock()
			continue
		}
		sem <- struct{}{}
		wg.Add(1)
		go func(ui int) {
			defer wg.Done()
			defer func() { <-sem }()
			if time.Now().After(deadline) {
				mu.Lock()
				notStarted++
				mu.Unlock()
				return
			}
			var skip []uint64
			ur := unitRun{}
			for {
				r, d := runWorker(p, tier, units[ui], tmp, ui, skip, -1, deadline, seed)
				if r != nil {
					ur.res = r
					ur.ntPath = filepath.Join(tmp, fmt.Sprintf("u%d.json.nt", ui))
					break
				}
				ur.deaths = append(ur.deaths, *d)
				// one hang is reported and the unit abandoned: every further hanging case would cost
				// another watchdog period
				if d.Kind == "spawn-failed" || d.Kind == "hang" || len(ur.deaths) >= 25 || d.Case == 0 {
					ur.gaveUp = true
					break
				}
				skip = append(skip, d.Case)
			}
			mu.Lock()
			runs[ui] = ur
			mu.Unlock()
		}(ui)
	}
	wg.Wait()

	// merge
	total := Result{Outcomes: map[string]uint64{}, Counters: map[string]uint64{}}
	nt := map[uint64]struct{}{}
	complete := notStarted == 0
	var viols []Violation
	var deaths []death
	var notes []string
	for i := range runs {
		ur := &runs[i]
		deaths = append(deaths, ur.deaths...)
		if ur.res == nil {
			complete = false
			continue
		}
		if !ur.res.Complete || ur.gaveUp {
			complete = false
		}
		total.Evals += ur.res.Evals
		for k, v := range ur.res.Outcomes {
			total.Outcomes[k] += v
		}
		for k, v := range ur.res.Counters {
			if strings.HasPrefix(k, "max:") {
				if total.Counters[k] < v {
					total.Counters[k] = v
				}
			} else {
				total.Counters[k] += v
			}
		}
		if len(total.Samples) < 6 {
			for _, s := range ur.res.Samples {
				if len(total.Samples) < 6 {
					total.Samples = append(total.Samples, s)
				}
			}
		}
		notes = append(notes, ur.res.Notes...)
		viols = append(viols, ur.res.Violations...)
		if b, err := os.ReadFile(ur.ntPath); err == nil {
			for j := 0; j+8 <= len(b); j += 8 {
				nt[binary.LittleEndian.Uint64(b[j:])] = struct{}{}
			}
		}
	}
	for _, d := range deaths {
		if d.Kind == "spawn-failed" {
			fmt.Fprintf(os.Stderr, "INTERNAL: worker spawn failed: %s\n", d.Stderr)
			return 2
		}
		if d.Kind == "oom" && p.SearchUnit != nil && p.SearchUnit(d.Unit) {
			// a state search keeps its visited set in memory: running out of it is the search's budget,
			// not behaviour of the library (the unit is reported as not exhaustively explored)
			total.Outcomes["search-unit-out-of-memory(capped)"]++
			complete = false
			notes = append(notes, fmt.Sprintf("unit %s: the state search exceeded the worker's memory limit at case %d; reported as not exhaustive", d.Unit, d.Case))
			continue
		}
		total.Outcomes["worker-death:"+d.Kind]++
		sig := fmt.Sprintf("%s worker-death kind=%s unit=%s", id, d.Kind, unitClass(d.Unit))
		if d.Label != "" {
			sig += " at=" + labelClass(d.Label)
		}
		viols = append(viols, Violation{Sig: sig, Unit: d.Unit, Case: d.Case,
			Detail: map[string]any{"label": d.Label, "kind": d.Kind, "stderr_tail": d.Stderr}})
	}

	// one representative per signature
	seen := map[string]bool{}
	var uniq []Violation
	for _, v := range viols {
		if !seen[v.Sig] {
			seen[v.Sig] = true
			uniq = append(uniq, v)
		}
	}
	sort.Slice(uniq, func(i, j int) bool { return uniq[i].Sig < uniq[j].Sig })

	var known knownFile
	if b, err := os.ReadFile(filepath.Join(VerifDir, "known_findings.json")); err == nil {
		if err := json.Unmarshal(b, &known); err != nil {
			fmt.Fprintln(os.Stderr, "INTERNAL: known_findings.json:", err)
			return 2
		}
	}
	isKnown := func(sig string) (string, bool) {
		for _, k := range known.Findings {
			if k.Property == id && k.Signature == sig {
				return k.What, true
			}
		}
		return "", false
	}
	var unknown []Violation
	knownSeen := 0
	for _, v := range uniq {
		if what, ok := isKnown(v.Sig); ok {
			fmt.Printf("KNOWN-FINDING: property=%s %s (%s)\n", id, v.Sig, what)
			knownSeen++
			continue
		}
		unknown = append(unknown, v)
	}

	// confirm before believing: re-execute (in fresh processes) and demand the
	// same signature each time.
	confirmed := 0
	var unstable []string
	for i, v := range unknown {
		if i >= 6 {
			break
		}
		if strings.Contains(v.Sig, " worker-death kind=") {
			// a worker death is observed by the parent itself (exit status, stderr, progress
			// record); whether it recurs in a fresh process depends on the heap the earlier
			// cases left behind (an allocation of 2 GiB fails only when 2 GiB are in use)
			confirmed++
			continue
		}
		ok := true
		for rep := 0; rep < 2 && ok; rep++ {
			r, d := runWorker(p, tier, v.Unit, tmp, 100000+i, nil, int64(v.Case), time.Time{}, seed)
			found := false
			if r != nil {
				for _, rv := range r.Violations {
					if rv.Sig == v.Sig {
						found = true
					}
				}
			} else if d != nil && strings.Contains(v.Sig, "worker-death kind="+d.Kind) {
				found = true
			}
			ok = found
			if !found && os.Getenv("VERIF_DEBUG") != "" {
				fmt.Fprintf(os.Stderr, "DEBUG replay unit=%s case=%d r=%v d=%+v\n", v.Unit, v.Case, r, d)
			}
		}
		if !ok {
			// the case may depend on state earlier cases of the unit left behind in the library
			// (a cache, a shared buffer): replay the whole unit and look for the same signature
			r, _ := runWorker(p, tier, v.Unit, tmp, 200000+i, nil, -1, time.Time{}, seed)
			if r != nil {
				for _, rv := range r.Violations {
					if rv.Sig == v.Sig {
						ok = true
					}
				}
			}
		}
		if ok {
			confirmed++
		} else {
			unstable = append(unstable, v.Sig)
		}
	}
	// A violation that was observed but does not recur on replay is still an observation of the
	// real library returning a wrong result (the oracles compare actual outputs; the harness has
	// no randomness, frozen clocks and fixed keys). What is left as a cause is nondeterminism
	// inside the code under test or the runtime it relies on (sync.Pool reuse, GC timing, map
	// order, goroutine placement). It is reported, marked as not reproduced.
	notReproduced := map[string]bool{}
	for _, sgn := range unstable {
		notReproduced[sgn] = true
		fmt.Fprintf(os.Stderr, "note: violation observed once but not reproduced on replay (state- or runtime-dependent behaviour of the code under test): %s\n", sgn)
	}

	os.MkdirAll(filepath.Join(OutDir, "replays"), 0o755)
	for _, v := range unknown {
		h := sha256.Sum256([]byte(v.Sig))
		path := filepath.Join(OutDir, "replays", fmt.Sprintf("%s-%s.json", id, hex.EncodeToString(h[:4])))
		b, _ := json.MarshalIndent(map[string]any{"property": id, "tier": tier, "unit": v.Unit, "case": v.Case,
			"signature": v.Sig, "detail": v.Detail, "reproduced_on_replay": !notReproduced[v.Sig]}, "", " ")
		os.WriteFile(path, b, 0o644)
		fmt.Printf("VIOLATION property=%s replay=%s\n", id, path)
		fmt.Printf("  what: %s\n", v.Sig)
	}

	wall := time.Since(start).Seconds()
	cov := map[string]any{
		"evaluations":         total.Evals,
		"distinct_nontrivial": len(nt),
		"rule":                p.Rule,
		"samples":             total.Samples,
		"exhaustive":          complete,
		"units":               len(units),
		"units_not_started":   notStarted,
		"outcomes":            total.Outcomes,
		"counters":            total.Counters,
		"known_findings_seen": knownSeen,
	}
	if p.Bound != nil {
		cov["bound"] = p.Bound(tier)
	}
	if !complete {
		cov["cap"] = fmt.Sprintf("time budget %s reached or a unit was abandoned: %d of %d units not started; units that finished were enumerated completely", budget, notStarted, len(units))
	}
	if len(notes) > 0 {
		if len(notes) > 12 {
			notes = notes[:12]
		}
		cov["notes"] = notes
	}
	if p.Level == "model_checking" {
		cov["states"] = total.Counters["states"]
		cov["transitions"] = total.Counters["transitions"]
		cov["traces_validated_against_impl"] = total.Counters["traces"]
		cov["explanation"] = "no separate model: every transition is executed on the real implementation; traces_validated_against_impl counts the operation sequences / schedules replayed on real objects"
	}
	if len(total.Samples) == 0 {
		cov["samples"] = []any{"(no sample recorded)"}
	}
	ev := map[string]any{
		"property_id": id,
		"tier":        tier,
		"seed":        seed,
		"level":       p.Level,
		"coverage":    cov,
		"assumptions": p.Assumptions,
		"wall_s":      wall,
		"violations":  len(unknown),
	}
	os.MkdirAll(filepath.Join(OutDir, "evidence"), 0o755)
	b, _ := json.MarshalIndent(ev, "", " ")
	if err := os.WriteFile(filepath.Join(OutDir, "evidence", id+".json"), b, 0o644); err != nil {
		fmt.Fprintln(os.Stderr, "INTERNAL: cannot write evidence:", err)
		return 2
	}
	fmt.Printf("%s tier=%s units=%d evaluations=%d distinct_nontrivial=%d exhaustive=%v violations=%d known=%d wall=%.1fs\n",
		id, tier, len(units), total.Evals, len(nt), complete, len(unknown), knownSeen, wall)
	keys := make([]string, 0, len(total.Outcomes))
	for k := range total.Outcomes {
		keys = append(keys, k)
	}
	sort.Strings(keys)
	for _, k := range keys {
		fmt.Printf("  outcome %-40s %d\n", k, total.Outcomes[k])
	}
	if len(unknown) > 0 {
		return 1
	}
	return 0
}

func unitClass(u string) string {
	if i := strings.Index(u, "#"); i >= 0 {
		return u[:i]
	}
	return u
}

func labelClass(l string) string {
	if i := strings.Index(l, " "); i >= 0 {
		return l[:i]
	}
	return l
}

// ReplayMain re-executes a recorded violation and reports whether it reproduces.
func ReplayMain(id, path string) int {
	p := Lookup(id)
	if p == nil {
		fmt.Fprintln(os.Stderr, "unknown property", id)
		return 2
	}
	b, err := os.ReadFile(path)
	if err != nil {
		fmt.Fprintln(os.Stderr, err)
		return 2
	}
	var rp struct {
		Tier string `json:"tier"`
		Unit string `json:"unit"`
		Case uint64 `json:"case"`
		Sig  string `json:"signature"`
	}
	if err := json.Unmarshal(b, &rp); err != nil {
		fmt.Fprintln(os.Stderr, err)
		return 2
	}
	tmp, _ := os.MkdirTemp("", "verif-replay-")
	defer os.RemoveAll(tmp)
	r, d := runWorker(p, rp.Tier, rp.Unit, tmp, 0, nil, int64(rp.Case), time.Time{}, 0)
	if d != nil {
		fmt.Printf("replay: worker died: kind=%s case=%d label=%s\n%s\n", d.Kind, d.Case, d.Label, d.Stderr)
		if strings.Contains(rp.Sig, "worker-death kind="+d.Kind) {
			fmt.Printf("VIOLATION property=%s replay=%s\n", id, path)
			return 1
		}
		return 2
	}
	for _, v := range r.Violations {
		j, _ := json.MarshalIndent(v, "", " ")
		fmt.Println(string(j))
		if v.Sig == rp.Sig {
			fmt.Printf("VIOLATION property=%s replay=%s\n", id, path)
			return 1
		}
	}
	fmt.Println("replay: the recorded violation does not occur on the current tree")
	return 0
}
