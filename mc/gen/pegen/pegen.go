// Package pegen builds small synthetic PE/COFF images from a layout tuple.
// The images are accepted by debug/pe and are well-formed per refpe.
package pegen

import "encoding/binary"

type Sec struct {
	RawSize int
	Gap     int // bytes of gap before this section's raw data in the file
	// EmptyPtrRel: for a section without raw data, PointerToRawData = SizeOfHeaders + EmptyPtrRel
	// (0 = pointer 0). The Authenticode algorithm ignores such sections whatever they point at.
	EmptyPtrRel int
	// Flags is the section's Characteristics word (0 = code | execute | read, 0x60000020). The
	// Authenticode algorithm does not look at it: what is hashed is decided by SizeOfRawData alone.
	Flags uint32
	// VirtZero writes VirtualSize = 0 although the section has raw data (the Authenticode algorithm
	// reads SizeOfRawData only; VirtualSize is just another covered header field)
	VirtZero bool
}

type Layout struct {
	PE32Plus  bool
	Lfanew    int   // 0x40, 0x48, 0x80
	Secs      []Sec // header order
	FileOrder []int // FileOrder[k] = index (header order) of the k-th section in the file
	HdrSlack  int   // extra bytes between the section table and SizeOfHeaders
	Trailing  int   // bytes after the last section
	Certs     []int // dwLength of existing certificate entries (none = unsigned)
	Big       bool  // first section is 40000 bytes instead of its RawSize
	NumRva    int   // NumberOfRvaAndSizes (0 = 16); at least 5
	Symbols   int   // number of COFF symbols placed after the last section / trailing data (0 = none)
	// HdrOver raises the SizeOfHeaders FIELD by that many bytes without moving anything: the first
	// section in the file then begins inside SizeOfHeaders (not well-formed; tolerated by refpe).
	HdrOver int
}

func pat(i int) byte { return byte(i*131+17) | 1 }

// Build returns the image bytes.
func Build(l Layout) []byte {
	numRva := l.NumRva
	if numRva == 0 {
		numRva = 16
	}
	machine := uint16(0x14c)
	magic := uint16(0x10b)
	ddOff := 96
	if l.PE32Plus {
		machine, magic, ddOff = 0x8664, 0x20b, 112
	}
	optSize := ddOff + 8*numRva
	n := len(l.Secs)
	optOff := l.Lfanew + 24
	secTable := optOff + optSize
	hdrEnd := secTable + 40*n
	sizeOfHeaders := (hdrEnd+7)&^7 + l.HdrSlack
	// raw data placement in file order
	ptr := make([]int, n)
	size := make([]int, n)
	off := sizeOfHeaders
	order := l.FileOrder
	if order == nil {
		for i := 0; i < n; i++ {
			order = append(order, i)
		}
	}
	for _, idx := range order {
		s := l.Secs[idx]
		sz := s.RawSize
		if l.Big && idx == 0 && sz > 0 {
			sz = 40000
		}
		off += s.Gap
		size[idx] = sz
		if sz == 0 {
			ptr[idx] = 0
			if s.EmptyPtrRel != 0 {
				ptr[idx] = sizeOfHeaders + s.EmptyPtrRel
			}
			continue
		}
		ptr[idx] = off
		off += sz
	}
	off += l.Trailing
	symOff := 0
	if l.Symbols > 0 {
		symOff = off
		off += 18*l.Symbols + 4 // symbol records + empty string table (length field only)
	}
	total := off
	certOff, certSize := 0, 0
	if len(l.Certs) > 0 {
		total = (total + 7) &^ 7
		certOff = total
		for _, c := range l.Certs {
			certSize += (c + 7) &^ 7
		}
		total += certSize
	}
	b := make([]byte, total)
	for i := range b {
		b[i] = pat(i)
	}
	if len(l.Certs) > 0 {
		for i := off; i < certOff; i++ {
			b[i] = 0 // alignment padding before the table
		}
	}
	// DOS header
	for i := 0; i < l.Lfanew; i++ {
		b[i] = pat(i)
	}
	b[0], b[1] = 'M', 'Z'
	binary.LittleEndian.PutUint32(b[0x3c:], uint32(l.Lfanew))
	copy(b[l.Lfanew:], "PE\x00\x00")
	c := l.Lfanew + 4
	binary.LittleEndian.PutUint16(b[c:], machine)
	binary.LittleEndian.PutUint16(b[c+2:], uint16(n))
	binary.LittleEndian.PutUint32(b[c+4:], 0x5eadbeef)         // TimeDateStamp
	binary.LittleEndian.PutUint32(b[c+8:], uint32(symOff))     // PointerToSymbolTable
	binary.LittleEndian.PutUint32(b[c+12:], uint32(l.Symbols)) // NumberOfSymbols
	if l.Symbols > 0 {
		for i := 0; i < l.Symbols; i++ {
			r := b[symOff+18*i : symOff+18*i+18]
			copy(r, []byte{'s', 'y', 'm', byte('0' + i%10), 0, 0, 0, 0})
			binary.LittleEndian.PutUint32(r[8:], uint32(i)) // Value
			binary.LittleEndian.PutUint16(r[12:], 1)        // SectionNumber
			binary.LittleEndian.PutUint16(r[14:], 0)        // Type
			r[16], r[17] = 2, 0                             // StorageClass external, no aux
		}
		binary.LittleEndian.PutUint32(b[symOff+18*l.Symbols:], 4) // string table: just its length
	}
	binary.LittleEndian.PutUint16(b[c+16:], uint16(optSize))
	binary.LittleEndian.PutUint16(b[c+18:], 0x2022)
	o := optOff
	binary.LittleEndian.PutUint16(b[o:], magic)
	binary.LittleEndian.PutUint32(b[o+60:], uint32(sizeOfHeaders+l.HdrOver))
	binary.LittleEndian.PutUint32(b[o+ddOff-4:], uint32(numRva)) // NumberOfRvaAndSizes
	// data directories: keep the pattern except entry 4
	binary.LittleEndian.PutUint32(b[o+ddOff+32:], uint32(certOff))
	binary.LittleEndian.PutUint32(b[o+ddOff+36:], uint32(certSize))
	for i := 0; i < n; i++ {
		h := secTable + 40*i
		copy(b[h:], []byte{'.', 's', byte('0' + i), 0, 0, 0, 0, 0})
		binary.LittleEndian.PutUint32(b[h+8:], uint32(size[i])) // VirtualSize
		if l.Secs[i].VirtZero {
			binary.LittleEndian.PutUint32(b[h+8:], 0)
		}
		binary.LittleEndian.PutUint32(b[h+12:], uint32(0x1000*(i+1))) // VirtualAddress
		binary.LittleEndian.PutUint32(b[h+16:], uint32(size[i]))
		binary.LittleEndian.PutUint32(b[h+20:], uint32(ptr[i]))
		binary.LittleEndian.PutUint32(b[h+24:], 0) // PointerToRelocations
		binary.LittleEndian.PutUint32(b[h+28:], 0) // PointerToLinenumbers
		binary.LittleEndian.PutUint16(b[h+32:], 0)
		binary.LittleEndian.PutUint16(b[h+34:], 0)
		fl := uint32(0x60000020)
		if l.Secs[i].Flags != 0 {
			fl = l.Secs[i].Flags
		}
		binary.LittleEndian.PutUint32(b[h+36:], fl)
	}
	// certificate entries
	p := certOff
	for _, cl := range l.Certs {
		binary.LittleEndian.PutUint32(b[p:], uint32(cl))
		binary.LittleEndian.PutUint16(b[p+4:], 0x0200)
		binary.LittleEndian.PutUint16(b[p+6:], 0x0002)
		for i := p + cl; i < p+(cl+7)&^7; i++ {
			b[i] = 0
		}
		p += (cl + 7) &^ 7
	}
	return b
}

// Perms returns all permutations of 0..n-1.
func Perms(n int) [][]int {
	if n == 0 {
		return [][]int{nil}
	}
	var out [][]int
	var rec func(cur []int, used int)
	rec = func(cur []int, used int) {
		if len(cur) == n {
			out = append(out, append([]int{}, cur...))
			return
		}
		for i := 0; i < n; i++ {
			if used&(1<<uint(i)) == 0 {
				rec(append(cur, i), used|1<<uint(i))
			}
		}
	}
	rec(nil, 0)
	return out
}
