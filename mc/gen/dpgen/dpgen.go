// Package dpgen is an independent encoder for EFI_LOAD_OPTION and device path
// nodes, written from UEFI 2.8 sections 3.1.3 and 10.3. It shares no code with
// go-uefi.
package dpgen

import (
	"encoding/binary"
	"unicode/utf16"
)

type Node struct {
	Kind string // PCI ACPI HD File FvFile USB
	// PCI
	Function, Device uint8
	// ACPI
	HID, UID uint32
	// HD
	PartNum     uint32
	Start, Size uint64
	Sig         [16]byte
	MBRType     uint8 // 1 = MBR, 2 = GPT
	SigType     uint8 // 0 none, 1 = 32-bit MBR signature, 2 = GUID
	// File
	Path string
	// FvFile
	FvName [16]byte
	// USB
	Port, Iface uint8
	// Vendor (messaging vendor node without vendor-defined data): GUID in wire bytes
	Vendor [16]byte
}

func UTF16Z(s string) []byte {
	u := utf16.Encode([]rune(s))
	b := make([]byte, 0, 2*len(u)+2)
	for _, x := range u {
		b = append(b, byte(x), byte(x>>8))
	}
	return append(b, 0, 0)
}

func hdr(t, st byte, n int) []byte {
	return []byte{t, st, byte(n), byte(n >> 8)}
}

func (n Node) Bytes() []byte {
	switch n.Kind {
	case "PCI":
		return append(hdr(1, 1, 6), n.Function, n.Device)
	case "ACPI":
		b := hdr(2, 1, 12)
		b = binary.LittleEndian.AppendUint32(b, n.HID)
		return binary.LittleEndian.AppendUint32(b, n.UID)
	case "HD":
		b := hdr(4, 1, 42)
		b = binary.LittleEndian.AppendUint32(b, n.PartNum)
		b = binary.LittleEndian.AppendUint64(b, n.Start)
		b = binary.LittleEndian.AppendUint64(b, n.Size)
		b = append(b, n.Sig[:]...)
		return append(b, n.MBRType, n.SigType)
	case "File":
		p := UTF16Z(n.Path)
		return append(hdr(4, 4, 4+len(p)), p...)
	case "FvFile":
		return append(hdr(4, 6, 20), n.FvName[:]...)
	case "USB":
		return append(hdr(3, 5, 6), n.Port, n.Iface)
	case "Vendor":
		return append(hdr(3, 10, 20), n.Vendor[:]...)
	}
	panic("dpgen: unknown node kind " + n.Kind)
}

var End = []byte{0x7f, 0xff, 4, 0}

type LoadOption struct {
	Attributes  uint32
	Description string
	Nodes       []Node
	Optional    []byte
}

func (l LoadOption) PathList() []byte {
	var b []byte
	for _, n := range l.Nodes {
		b = append(b, n.Bytes()...)
	}
	return append(b, End...)
}

func (l LoadOption) Bytes() []byte {
	pl := l.PathList()
	b := binary.LittleEndian.AppendUint32(nil, l.Attributes)
	b = binary.LittleEndian.AppendUint16(b, uint16(len(pl)))
	b = append(b, UTF16Z(l.Description)...)
	b = append(b, pl...)
	return append(b, l.Optional...)
}
