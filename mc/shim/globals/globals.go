// Package globals lets the harness look at the package-level variables of the library packages
// linked into the check binary. The overlay generator adds one file to every library package that
// registers the addresses of all its package-level variables here; Snapshot renders them with
// deepdump (no addresses). The harness compares the snapshot taken before a unit with the one
// after it: a library operation that changes an exported table, OID, GUID or error value changes
// what every LATER call in the process sees.
package globals

import (
	"sort"

	"verif/shim/deepdump"
)

type Var struct {
	Name string
	Ptr  any
}

var reg = map[string]func() []Var{}

func Register(pkg string, f func() []Var) { reg[pkg] = f }

// Snapshot returns "pkg.Var" -> dump for every registered variable.
func Snapshot() map[string]string {
	out := map[string]string{}
	for pkg, f := range reg {
		for _, v := range f() {
			out[pkg+"."+v.Name] = dump(v.Ptr)
		}
	}
	return out
}

func dump(p any) (s string) {
	defer func() {
		if r := recover(); r != nil {
			s = "<undumpable>"
		}
	}()
	return deepdump.Dump(p)
}

// Diff lists the variables whose dump differs (sorted).
func Diff(a, b map[string]string) []string {
	var d []string
	for k, v := range a {
		if b[k] != v {
			d = append(d, k)
		}
	}
	for k := range b {
		if _, ok := a[k]; !ok {
			d = append(d, k)
		}
	}
	sort.Strings(d)
	return d
}
