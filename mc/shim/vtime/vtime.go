// Package vtime is a drop-in replacement for the standard "time" package used
// when go-uefi is built through the verification overlay. Only Now is changed:
// the harness decides the instant and the zone it is reported in. Everything
// else is an alias of the real package.
package vtime

import (
	"sync/atomic"
	stdtime "time"
)

type clock struct {
	t    Time
	step Duration // every Now() advances the clock by step (0 = frozen)
	n    int
}

var cur atomic.Pointer[clock]

// Set freezes Now at t (including t's Location, which plays the role of the
// process-local zone). Unset returns to the real clock.
func Set(t Time) { cur.Store(&clock{t: t}) }
func Unset()     { cur.Store(nil) }

// SetStepping makes Now return t, t+step, t+2*step, ... (one step per call), so that code
// reading the clock twice sees two different instants.
func SetStepping(t Time, step Duration) { cur.Store(&clock{t: t, step: step}) }

// Calls reports how many times Now was called since Set/SetStepping.
func Calls() int {
	if c := cur.Load(); c != nil {
		return c.n
	}
	return 0
}

func Now() Time {
	if c := cur.Load(); c != nil {
		t := c.t.Add(Duration(c.n) * c.step)
		c.n++
		return t
	}
	return stdtime.Now()
}

func Since(t Time) Duration { return Now().Sub(t) }
func Until(t Time) Duration { return t.Sub(Now()) }
