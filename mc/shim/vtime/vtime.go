// Package vtime is a drop-in replacement for the standard "time" package used
// when go-uefi is built through the verification overlay. Only Now is changed:
// the harness decides the instant and the zone it is reported in. Everything
// else is an alias of the real package.
package vtime

import (
	"sync/atomic"
	stdtime "time"
)

type (
	Time     = stdtime.Time
	Duration = stdtime.Duration
	Location = stdtime.Location
	Month    = stdtime.Month
	Weekday  = stdtime.Weekday
	Timer    = stdtime.Timer
	Ticker   = stdtime.Ticker
)

const (
	Nanosecond  = stdtime.Nanosecond
	Microsecond = stdtime.Microsecond
	Millisecond = stdtime.Millisecond
	Second      = stdtime.Second
	Minute      = stdtime.Minute
	Hour        = stdtime.Hour
	RFC3339     = stdtime.RFC3339
	RFC1123     = stdtime.RFC1123
	UnixDate    = stdtime.UnixDate
	January     = stdtime.January
	December    = stdtime.December
)

var (
	UTC   = stdtime.UTC
	Local = stdtime.Local
)

type clock struct {
	t    Time
	step Duration // every Now() advances the clock by step (0 = frozen)
	n    int
}

var cur atomic.Pointer[clock]

// Set freezes Now at t (including t's Location, which plays the role of the
// process-local zone). Unset returns to the real clock.
func Set(t Time) { cur.Store(&clock{t: t}) }
func Unset()     { cur.Store(nil) }

// SetStepping makes Now return t, t+step, t+2*step, ... (one step per call), so that code
// reading the clock twice sees two different instants.
func SetStepping(t Time, step Duration) { cur.Store(&clock{t: t, step: step}) }

// Calls reports how many times Now was called since Set/SetStepping.
func Calls() int {
	if c := cur.Load(); c != nil {
		return c.n
	}
	return 0
}

func Now() Time {
	if c := cur.Load(); c != nil {
		t := c.t.Add(Duration(c.n) * c.step)
		c.n++
		return t
	}
	return stdtime.Now()
}

func Since(t Time) Duration                    { return Now().Sub(t) }
func Until(t Time) Duration                    { return t.Sub(Now()) }
func Unix(sec int64, nsec int64) Time          { return stdtime.Unix(sec, nsec) }
func UnixMilli(msec int64) Time                { return stdtime.UnixMilli(msec) }
func Parse(layout, value string) (Time, error) { return stdtime.Parse(layout, value) }
func ParseDuration(s string) (Duration, error) { return stdtime.ParseDuration(s) }
func Date(year int, month Month, day, hour, min, sec, nsec int, loc *Location) Time {
	return stdtime.Date(year, month, day, hour, min, sec, nsec, loc)
}
func FixedZone(name string, offset int) *Location { return stdtime.FixedZone(name, offset) }
func LoadLocation(name string) (*Location, error) { return stdtime.LoadLocation(name) }
func Sleep(d Duration)                            { stdtime.Sleep(d) }
func After(d Duration) <-chan Time                { return stdtime.After(d) }
func NewTimer(d Duration) *Timer                  { return stdtime.NewTimer(d) }
func NewTicker(d Duration) *Ticker                { return stdtime.NewTicker(d) }
