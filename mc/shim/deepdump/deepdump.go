// Package deepdump renders the complete reachable state of a value, unexported
// fields and reader cursors included, as a deterministic string (no addresses).
// It is generic (reflection), so it keeps working when fields are added,
// renamed or change type.
package deepdump

import (
	"crypto/sha256"
	"fmt"
	"reflect"
	"sort"
	"strings"
	"unsafe"
)

func Dump(v any) string {
	var sb strings.Builder
	d := &dumper{seen: map[uintptr]int{}, sb: &sb}
	d.val(reflect.ValueOf(v), 0)
	return sb.String()
}

// DumpVisible renders only what a caller in another package can reach without reflection:
// exported fields, recursively. A difference here is a change every user of the value can see.
func DumpVisible(v any) string {
	var sb strings.Builder
	d := &dumper{seen: map[uintptr]int{}, sb: &sb, visibleOnly: true}
	d.val(reflect.ValueOf(v), 0)
	return sb.String()
}

type dumper struct {
	seen        map[uintptr]int
	sb          *strings.Builder
	n           int
	visibleOnly bool
}

// access makes a value obtained through an unexported field usable.
func access(v reflect.Value) reflect.Value {
	if v.CanInterface() || !v.CanAddr() {
		return v
	}
	return reflect.NewAt(v.Type(), unsafe.Pointer(v.UnsafeAddr())).Elem()
}

func (d *dumper) val(v reflect.Value, depth int) {
	if depth > 14 {
		d.sb.WriteString("<depth>")
		return
	}
	if !v.IsValid() {
		d.sb.WriteString("<invalid>")
		return
	}
	switch v.Kind() {
	case reflect.Ptr:
		if v.IsNil() {
			d.sb.WriteString("nil")
			return
		}
		p := v.Pointer()
		if id, ok := d.seen[p]; ok {
			fmt.Fprintf(d.sb, "<ref %d>", id)
			return
		}
		d.n++
		d.seen[p] = d.n
		fmt.Fprintf(d.sb, "&%d", d.n)
		d.val(v.Elem(), depth+1)
	case reflect.Interface:
		if v.IsNil() {
			d.sb.WriteString("nil")
			return
		}
		fmt.Fprintf(d.sb, "(%s)", v.Elem().Type().String())
		d.val(v.Elem(), depth+1)
	case reflect.Struct:
		t := v.Type()
		d.sb.WriteString(t.Name() + "{")
		for i := 0; i < v.NumField(); i++ {
			if d.visibleOnly && !t.Field(i).IsExported() {
				continue
			}
			f := v.Field(i)
			if v.CanAddr() {
				f = access(f)
			}
			d.sb.WriteString(t.Field(i).Name + ":")
			d.val(f, depth+1)
			d.sb.WriteString(" ")
		}
		d.sb.WriteString("}")
	case reflect.Slice:
		if v.IsNil() {
			d.sb.WriteString("nil[]")
			return
		}
		if v.Type().Elem().Kind() == reflect.Uint8 {
			b := make([]byte, v.Len())
			if v.CanInterface() {
				reflect.Copy(reflect.ValueOf(b), v)
			} else {
				for i := range b {
					b[i] = byte(v.Index(i).Uint())
				}
			}
			h := sha256.Sum256(b)
			fmt.Fprintf(d.sb, "bytes(len=%d cap>=len sha=%x)", len(b), h[:6])
			return
		}
		fmt.Fprintf(d.sb, "[%d:", v.Len())
		for i := 0; i < v.Len() && i < 256; i++ {
			d.val(v.Index(i), depth+1)
			d.sb.WriteString(",")
		}
		d.sb.WriteString("]")
	case reflect.Array:
		if v.Type().Elem().Kind() == reflect.Uint8 {
			b := make([]byte, v.Len())
			for i := range b {
				b[i] = byte(v.Index(i).Uint())
			}
			fmt.Fprintf(d.sb, "%x", b)
			return
		}
		d.sb.WriteString("[")
		for i := 0; i < v.Len(); i++ {
			d.val(v.Index(i), depth+1)
			d.sb.WriteString(",")
		}
		d.sb.WriteString("]")
	case reflect.Map:
		keys := v.MapKeys()
		strs := make([]string, len(keys))
		for i, k := range keys {
			strs[i] = fmt.Sprint(k)
		}
		sort.Strings(strs)
		fmt.Fprintf(d.sb, "map[%d]%v", len(keys), strs)
	case reflect.String:
		fmt.Fprintf(d.sb, "%q", v.String())
	case reflect.Bool:
		fmt.Fprint(d.sb, v.Bool())
	case reflect.Int, reflect.Int8, reflect.Int16, reflect.Int32, reflect.Int64:
		fmt.Fprint(d.sb, v.Int())
	case reflect.Uint, reflect.Uint8, reflect.Uint16, reflect.Uint32, reflect.Uint64, reflect.Uintptr:
		fmt.Fprint(d.sb, v.Uint())
	case reflect.Float32, reflect.Float64:
		fmt.Fprint(d.sb, v.Float())
	default:
		d.sb.WriteString("<" + v.Kind().String() + ">")
	}
}
