// Package vbytes replaces "bytes" when go-uefi is built for schedule
// exploration: Buffer and Reader report every operation to the scheduler seam;
// everything else is the standard package (gen.go).
package vbytes

import (
	stdbytes "bytes"
	"io"

	"verif/shim/sched"
)

type Buffer struct {
	b    stdbytes.Buffer
	self *Buffer
	o    sched.Obj
}

func NewBuffer(buf []byte) *Buffer {
	b := &Buffer{b: *stdbytes.NewBuffer(buf)}
	b.self = b
	b.o = sched.New()
	return b
}

func NewBufferString(s string) *Buffer { return NewBuffer([]byte(s)) }

func (b *Buffer) obj() sched.Obj {
	if b.self != b { // zero value, or a copy made by value: a new object
		b.self = b
		b.o = sched.New()
	}
	return b.o
}

func (b *Buffer) rd(what string) { sched.Touch(b.obj(), sched.Read, "Buffer."+what) }
func (b *Buffer) wr(what string) { sched.Touch(b.obj(), sched.Write, "Buffer."+what) }

func (b *Buffer) Bytes() []byte                       { b.rd("Bytes"); return b.b.Bytes() }
func (b *Buffer) AvailableBuffer() []byte             { b.rd("AvailableBuffer"); return b.b.AvailableBuffer() }
func (b *Buffer) String() string                      { b.rd("String"); return b.b.String() }
func (b *Buffer) Len() int                            { b.rd("Len"); return b.b.Len() }
func (b *Buffer) Cap() int                            { return b.b.Cap() }
func (b *Buffer) Available() int                      { return b.b.Available() }
func (b *Buffer) Truncate(n int)                      { b.wr("Truncate"); b.b.Truncate(n) }
func (b *Buffer) Reset()                              { b.wr("Reset"); b.b.Reset() }
func (b *Buffer) Grow(n int)                          { b.wr("Grow"); b.b.Grow(n) }
func (b *Buffer) Write(p []byte) (int, error)         { b.wr("Write"); return b.b.Write(p) }
func (b *Buffer) WriteString(s string) (int, error)   { b.wr("WriteString"); return b.b.WriteString(s) }
func (b *Buffer) WriteByte(c byte) error              { b.wr("WriteByte"); return b.b.WriteByte(c) }
func (b *Buffer) WriteRune(r rune) (int, error)       { b.wr("WriteRune"); return b.b.WriteRune(r) }
func (b *Buffer) ReadFrom(r io.Reader) (int64, error) { b.wr("ReadFrom"); return b.b.ReadFrom(r) }
func (b *Buffer) WriteTo(w io.Writer) (int64, error)  { b.wr("WriteTo"); return b.b.WriteTo(w) }
func (b *Buffer) Read(p []byte) (int, error)          { b.wr("Read"); return b.b.Read(p) }
func (b *Buffer) Next(n int) []byte                   { b.wr("Next"); return b.b.Next(n) }
func (b *Buffer) ReadByte() (byte, error)             { b.wr("ReadByte"); return b.b.ReadByte() }
func (b *Buffer) ReadRune() (rune, int, error)        { b.wr("ReadRune"); return b.b.ReadRune() }
func (b *Buffer) UnreadRune() error                   { b.wr("UnreadRune"); return b.b.UnreadRune() }
func (b *Buffer) UnreadByte() error                   { b.wr("UnreadByte"); return b.b.UnreadByte() }
func (b *Buffer) ReadBytes(d byte) ([]byte, error)    { b.wr("ReadBytes"); return b.b.ReadBytes(d) }
func (b *Buffer) ReadString(d byte) (string, error)   { b.wr("ReadString"); return b.b.ReadString(d) }

// Peek returns unread length and bytes without touching the object (state dumps).
func (b *Buffer) Peek() []byte { return b.b.Bytes() }

type Reader struct {
	r    *stdbytes.Reader
	self *Reader
	o    sched.Obj
}

func NewReader(b []byte) *Reader {
	r := &Reader{r: stdbytes.NewReader(b)}
	r.self = r
	r.o = sched.New()
	return r
}

func (r *Reader) obj() sched.Obj {
	if r.self != r {
		r.self = r
		r.o = sched.New()
		if r.r == nil {
			r.r = stdbytes.NewReader(nil)
		}
	}
	return r.o
}

func (r *Reader) rd(what string) { sched.Touch(r.obj(), sched.Read, "Reader."+what) }
func (r *Reader) wr(what string) { sched.Touch(r.obj(), sched.Write, "Reader."+what) }

func (r *Reader) Len() int                                { r.rd("Len"); return r.r.Len() }
func (r *Reader) Size() int64                             { r.obj(); return r.r.Size() }
func (r *Reader) Read(b []byte) (int, error)              { r.wr("Read"); return r.r.Read(b) }
func (r *Reader) ReadAt(b []byte, off int64) (int, error) { r.rd("ReadAt"); return r.r.ReadAt(b, off) }
func (r *Reader) ReadByte() (byte, error)                 { r.wr("ReadByte"); return r.r.ReadByte() }
func (r *Reader) UnreadByte() error                       { r.wr("UnreadByte"); return r.r.UnreadByte() }
func (r *Reader) ReadRune() (rune, int, error)            { r.wr("ReadRune"); return r.r.ReadRune() }
func (r *Reader) UnreadRune() error                       { r.wr("UnreadRune"); return r.r.UnreadRune() }
func (r *Reader) Seek(off int64, whence int) (int64, error) {
	r.wr("Seek")
	return r.r.Seek(off, whence)
}
func (r *Reader) WriteTo(w io.Writer) (int64, error) { r.wr("WriteTo"); return r.r.WriteTo(w) }
func (r *Reader) Reset(b []byte)                     { r.wr("Reset"); r.r.Reset(b) }
