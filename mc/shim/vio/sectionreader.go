// Package vio replaces "io" when go-uefi is built for schedule exploration:
// SectionReader reports every cursor operation and positional read to the
// scheduler seam; everything else is the standard package (gen.go).
package vio

import (
	stdio "io"

	"verif/shim/sched"
)

type SectionReader struct {
	sr   *stdio.SectionReader
	self *SectionReader
	o    sched.Obj
}

func NewSectionReader(r ReaderAt, off int64, n int64) *SectionReader {
	s := &SectionReader{sr: stdio.NewSectionReader(r, off, n)}
	s.self = s
	s.o = sched.New()
	return s
}

func (s *SectionReader) obj() sched.Obj {
	if s.self != s { // copied by value: a new object
		s.self = s
		s.o = sched.New()
	}
	return s.o
}

func (s *SectionReader) Read(p []byte) (int, error) {
	sched.Touch(s.obj(), sched.Write, "SectionReader.Read")
	return s.sr.Read(p)
}

func (s *SectionReader) Seek(offset int64, whence int) (int64, error) {
	k := sched.Write
	if whence == SeekCurrent && offset == 0 {
		k = sched.Read
	}
	sched.Touch(s.obj(), k, "SectionReader.Seek")
	return s.sr.Seek(offset, whence)
}

func (s *SectionReader) ReadAt(p []byte, off int64) (int, error) {
	sched.Touch(s.obj(), sched.Read, "SectionReader.ReadAt")
	return s.sr.ReadAt(p, off)
}

func (s *SectionReader) Size() int64 { return s.sr.Size() }

// Pos returns the cursor without touching the object (state dumps).
func (s *SectionReader) Pos() int64 {
	p, _ := s.sr.Seek(0, SeekCurrent)
	return p
}
