// Package sched is the seam between the io/bytes shims and the schedule
// explorer: every operation on a shimmed cursor or buffer object reports an
// access here. In the concurrent phase of a harness (cooperative scheduling,
// exactly one goroutine runs at a time) an access to an object that is shared
// between threads is a scheduling point.
package sched

type Kind uint8

const (
	Read  Kind = iota // does not change the object (positional read, Len, Bytes)
	Write             // advances a cursor or changes content
)

type Obj struct {
	ID      uint64
	Epoch   uint64 // phase counter at creation
	Creator int    // thread that created it (0 = harness / sequential code)
}

type Access struct {
	Thread int
	Obj    uint64
	Shared bool
	Kind   Kind
	What   string
}

var (
	// Cur is the id of the thread that is running (set by the explorer).
	Cur int
	// Epoch is incremented when a concurrent phase starts; objects created
	// before that are shared by construction.
	Epoch uint64
	// Active is true during a concurrent phase.
	Active bool
	// Yield is called at every access to a shared object during a phase.
	Yield func(a Access)
	// Record, if set, receives every access (sequential monitors).
	Record func(a Access)
	// Wait, if set (by the explorer, during a concurrent phase), parks the running thread until cond
	// holds; the scheduler does not choose a parked thread whose condition is false.
	Wait   func(cond func() bool, what string)
	nextID uint64
)

// WaitUntil is called by the sync shim when the running goroutine cannot go on before cond holds.
func WaitUntil(cond func() bool, what string) {
	if Active && Wait != nil {
		Wait(cond, what)
		return
	}
	if !cond() {
		panic("deadlock: " + what + " waits for something only another goroutine can do, outside a concurrent phase")
	}
}

func New() Obj {
	nextID++
	return Obj{ID: nextID, Epoch: Epoch, Creator: Cur}
}

// Touch reports an access.
func Touch(o Obj, k Kind, what string) {
	shared := o.Epoch < Epoch || (Active && o.Creator != Cur)
	a := Access{Thread: Cur, Obj: o.ID, Shared: shared, Kind: k, What: what}
	if Record != nil {
		Record(a)
	}
	if Active && shared && Yield != nil {
		Yield(a)
	}
}
