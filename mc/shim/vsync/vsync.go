// Package vsync replaces package sync in the schedule-exploration build. Under the cooperative
// scheduler exactly one goroutine runs at a time; a goroutine that blocked for real on a lock held
// by a descheduled goroutine would stall the exploration (and be taken for a hang of the code under
// test). Here waiting is visible instead: Lock on a held mutex, Once.Do while another Do runs,
// WaitGroup.Wait, Cond.Wait hand control back to the scheduler together with the condition under
// which the goroutine can go on; every lock operation is also a scheduling point. No real
// synchronisation is needed for the shim's own state (one goroutine runs at a time). Outside a
// concurrent phase the types behave like their originals in single-goroutine use.
package vsync

import (
	std "sync"

	"verif/shim/sched"
)

type Locker = std.Locker
type Pool = std.Pool
type Map = std.Map

type Mutex struct {
	held bool
	o    sched.Obj
}

func (m *Mutex) obj() sched.Obj {
	if m.o.ID == 0 {
		m.o = sched.New()
		m.o.Epoch = 0 // a lock is shared by its nature
	}
	return m.o
}

func (m *Mutex) Lock() {
	sched.Touch(m.obj(), sched.Write, "Mutex.Lock")
	if m.held {
		sched.WaitUntil(func() bool { return !m.held }, "Mutex.Lock")
	}
	m.held = true
}

func (m *Mutex) TryLock() bool {
	sched.Touch(m.obj(), sched.Write, "Mutex.TryLock")
	if m.held {
		return false
	}
	m.held = true
	return true
}

func (m *Mutex) Unlock() {
	if !m.held {
		panic("sync: unlock of unlocked mutex")
	}
	m.held = false
	sched.Touch(m.obj(), sched.Write, "Mutex.Unlock")
}

type RWMutex struct {
	w bool
	r int
	o sched.Obj
}

func (m *RWMutex) obj() sched.Obj {
	if m.o.ID == 0 {
		m.o = sched.New()
		m.o.Epoch = 0
	}
	return m.o
}

func (m *RWMutex) Lock() {
	sched.Touch(m.obj(), sched.Write, "RWMutex.Lock")
	if m.w || m.r > 0 {
		sched.WaitUntil(func() bool { return !m.w && m.r == 0 }, "RWMutex.Lock")
	}
	m.w = true
}

func (m *RWMutex) TryLock() bool {
	sched.Touch(m.obj(), sched.Write, "RWMutex.TryLock")
	if m.w || m.r > 0 {
		return false
	}
	m.w = true
	return true
}

func (m *RWMutex) Unlock() {
	if !m.w {
		panic("sync: Unlock of unlocked RWMutex")
	}
	m.w = false
	sched.Touch(m.obj(), sched.Write, "RWMutex.Unlock")
}

func (m *RWMutex) RLock() {
	sched.Touch(m.obj(), sched.Write, "RWMutex.RLock")
	if m.w {
		sched.WaitUntil(func() bool { return !m.w }, "RWMutex.RLock")
	}
	m.r++
}

func (m *RWMutex) TryRLock() bool {
	sched.Touch(m.obj(), sched.Write, "RWMutex.TryRLock")
	if m.w {
		return false
	}
	m.r++
	return true
}

func (m *RWMutex) RUnlock() {
	if m.r == 0 {
		panic("sync: RUnlock of unlocked RWMutex")
	}
	m.r--
	sched.Touch(m.obj(), sched.Write, "RWMutex.RUnlock")
}

type rlocker RWMutex

func (r *rlocker) Lock()   { (*RWMutex)(r).RLock() }
func (r *rlocker) Unlock() { (*RWMutex)(r).RUnlock() }

func (m *RWMutex) RLocker() Locker { return (*rlocker)(m) }

// Once: Do returns only after the first call's f has returned, as the original does.
type Once struct {
	done    bool
	running bool
	o       sched.Obj
}

func (o *Once) obj() sched.Obj {
	if o.o.ID == 0 {
		o.o = sched.New()
		o.o.Epoch = 0
	}
	return o.o
}

func (o *Once) Do(f func()) {
	sched.Touch(o.obj(), sched.Write, "Once.Do")
	if o.done {
		return
	}
	if o.running {
		sched.WaitUntil(func() bool { return o.done }, "Once.Do")
		return
	}
	o.running = true
	defer func() {
		o.done = true
		o.running = false
		sched.Touch(o.obj(), sched.Write, "Once.Do (done)")
	}()
	f()
}

func OnceFunc(f func()) func() {
	var once Once
	var valid bool
	var p any
	g := func() {
		defer func() {
			p = recover()
			if !valid {
				panic(p)
			}
		}()
		f()
		f = nil
		valid = true
	}
	return func() {
		once.Do(g)
		if !valid {
			panic(p)
		}
	}
}

func OnceValue[T any](f func() T) func() T {
	var once Once
	var valid bool
	var p any
	var result T
	g := func() {
		defer func() {
			p = recover()
			if !valid {
				panic(p)
			}
		}()
		result = f()
		f = nil
		valid = true
	}
	return func() T {
		once.Do(g)
		if !valid {
			panic(p)
		}
		return result
	}
}

func OnceValues[T1, T2 any](f func() (T1, T2)) func() (T1, T2) {
	var once Once
	var valid bool
	var p any
	var r1 T1
	var r2 T2
	g := func() {
		defer func() {
			p = recover()
			if !valid {
				panic(p)
			}
		}()
		r1, r2 = f()
		f = nil
		valid = true
	}
	return func() (T1, T2) {
		once.Do(g)
		if !valid {
			panic(p)
		}
		return r1, r2
	}
}

type WaitGroup struct {
	n int
	o sched.Obj
}

func (w *WaitGroup) obj() sched.Obj {
	if w.o.ID == 0 {
		w.o = sched.New()
		w.o.Epoch = 0
	}
	return w.o
}

func (w *WaitGroup) Add(delta int) {
	w.n += delta
	if w.n < 0 {
		panic("sync: negative WaitGroup counter")
	}
	sched.Touch(w.obj(), sched.Write, "WaitGroup.Add")
}

func (w *WaitGroup) Done() { w.Add(-1) }

func (w *WaitGroup) Wait() {
	sched.Touch(w.obj(), sched.Write, "WaitGroup.Wait")
	if w.n > 0 {
		sched.WaitUntil(func() bool { return w.n == 0 }, "WaitGroup.Wait")
	}
}

type Cond struct {
	L   Locker
	gen uint64
	o   sched.Obj
}

func NewCond(l Locker) *Cond { return &Cond{L: l} }

func (c *Cond) Wait() {
	g := c.gen
	c.L.Unlock()
	sched.WaitUntil(func() bool { return c.gen != g }, "Cond.Wait")
	c.L.Lock()
}

func (c *Cond) Signal()    { c.gen++ }
func (c *Cond) Broadcast() { c.gen++ }
