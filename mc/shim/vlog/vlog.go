// Package vlog is a drop-in replacement for the standard "log" package used
// when go-uefi is built through the verification overlay. Fatal* does not
// terminate the process: it panics with an Exit value, so that "the library
// killed the host program" becomes an observable, recoverable outcome.
// Print* output is discarded. Everything else forwards to the real package.
package vlog

import (
	"fmt"
	"io"
	stdlog "log"
)

// Exit is the panic value raised instead of os.Exit(1).
type Exit struct{ Msg string }

func (e Exit) Error() string { return "log.Fatal: " + e.Msg }

type Logger = stdlog.Logger

const (
	Ldate         = stdlog.Ldate
	Ltime         = stdlog.Ltime
	Lmicroseconds = stdlog.Lmicroseconds
	Llongfile     = stdlog.Llongfile
	Lshortfile    = stdlog.Lshortfile
	LUTC          = stdlog.LUTC
	Lmsgprefix    = stdlog.Lmsgprefix
	LstdFlags     = stdlog.LstdFlags
)

func Fatal(v ...any)                 { panic(Exit{fmt.Sprint(v...)}) }
func Fatalf(format string, v ...any) { panic(Exit{fmt.Sprintf(format, v...)}) }
func Fatalln(v ...any)               { panic(Exit{fmt.Sprintln(v...)}) }
func Panic(v ...any)                 { panic(fmt.Sprint(v...)) }
func Panicf(format string, v ...any) { panic(fmt.Sprintf(format, v...)) }
func Panicln(v ...any)               { panic(fmt.Sprintln(v...)) }
func Print(v ...any)                 {}
func Printf(format string, v ...any) {}
func Println(v ...any)               {}
func SetOutput(w io.Writer)          {}
func SetFlags(flag int)              {}
func SetPrefix(prefix string)        {}
func Flags() int                     { return stdlog.Flags() }
func Prefix() string                 { return stdlog.Prefix() }
func Writer() io.Writer              { return io.Discard }
func Default() *Logger               { return stdlog.New(io.Discard, "", 0) }
func New(out io.Writer, prefix string, flag int) *Logger {
	return stdlog.New(out, prefix, flag)
}
func Output(calldepth int, s string) error { return nil }
