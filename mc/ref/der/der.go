// Package der is a small TLV tree for DER/BER-definite-length data: parse into
// nodes, edit, re-encode with minimal lengths. It is used by the reference
// PKCS#7 verifier and by the structural-edit catalogue. No go-uefi, cryptobyte
// or encoding/asn1 code is used.
package der

import (
	"errors"
	"fmt"
)

type Node struct {
	Tag      byte // identifier octet (low-tag-number form only)
	Children []*Node
	Val      []byte // primitive content
	// position in the parsed input (not maintained by edits)
	Off, HdrLen, Len int
	// Raw is the TLV exactly as it appeared in the parsed input (nil for nodes
	// built or modified by edits; Touch clears it).
	Raw []byte
	// Opaque marks a constructed element whose content did not fully parse as
	// TLVs; Trailing holds the unparsed remainder.
	Opaque   bool
	Trailing []byte
}

// Bytes returns the TLV as it appeared in the input if the node is untouched,
// otherwise its minimal re-encoding.
func (n *Node) Bytes() []byte {
	if n.Raw != nil {
		return n.Raw
	}
	return n.Encode()
}

// RawContent returns the content octets as they appeared (or re-encoded).
func (n *Node) RawContent() []byte {
	if n.Raw != nil {
		return n.Raw[n.HdrLen:]
	}
	return n.Content()
}

func (n *Node) Constructed() bool { return n.Tag&0x20 != 0 }

var ErrParse = errors.New("der: malformed")

// Parse decodes exactly one TLV covering all of b.
func Parse(b []byte) (*Node, error) {
	n, rest, err := parseOne(b, 0, 0)
	if err != nil {
		return nil, err
	}
	if len(rest) != 0 {
		return nil, fmt.Errorf("%w: %d trailing bytes", ErrParse, len(rest))
	}
	return n, nil
}

// ParsePrefix decodes one TLV at the start of b and returns the rest.
func ParsePrefix(b []byte) (*Node, []byte, error) { return parseOne(b, 0, 0) }

func parseOne(b []byte, base, depth int) (*Node, []byte, error) {
	if depth > 64 {
		return nil, nil, fmt.Errorf("%w: nesting too deep", ErrParse)
	}
	if len(b) < 2 {
		return nil, nil, fmt.Errorf("%w: short header", ErrParse)
	}
	tag := b[0]
	if tag&0x1f == 0x1f {
		return nil, nil, fmt.Errorf("%w: high tag number", ErrParse)
	}
	l := int(b[1])
	hdr := 2
	if l&0x80 != 0 {
		nb := l & 0x7f
		if nb == 0 || nb > 4 || len(b) < 2+nb {
			return nil, nil, fmt.Errorf("%w: length form", ErrParse)
		}
		l = 0
		for i := 0; i < nb; i++ {
			l = l<<8 | int(b[2+i])
		}
		hdr = 2 + nb
	}
	if l < 0 || hdr+l > len(b) {
		return nil, nil, fmt.Errorf("%w: length %d exceeds input", ErrParse, l)
	}
	n := &Node{Tag: tag, Off: base, HdrLen: hdr, Len: l, Raw: b[: hdr+l : hdr+l]}
	body := b[hdr : hdr+l]
	if tag&0x20 != 0 {
		off := base + hdr
		for len(body) > 0 {
			c, rest, err := parseOne(body, off, depth+1)
			if err != nil {
				// the rest of a constructed element's content is not a TLV: keep what
				// parsed and carry the remainder as opaque trailing bytes (readers that
				// stop after the fields they need must not be affected by it)
				n.Opaque = true
				n.Trailing = append([]byte{}, body...)
				break
			}
			n.Children = append(n.Children, c)
			off += len(body) - len(rest)
			body = rest
		}
	} else {
		n.Val = append([]byte{}, body...)
	}
	return n, b[hdr+l:], nil
}

func encLen(l int) []byte {
	switch {
	case l < 0x80:
		return []byte{byte(l)}
	case l < 0x100:
		return []byte{0x81, byte(l)}
	case l < 0x10000:
		return []byte{0x82, byte(l >> 8), byte(l)}
	case l < 0x1000000:
		return []byte{0x83, byte(l >> 16), byte(l >> 8), byte(l)}
	}
	return []byte{0x84, byte(l >> 24), byte(l >> 16), byte(l >> 8), byte(l)}
}

// Content returns the encoded content octets (children re-encoded).
func (n *Node) Content() []byte {
	if !n.Constructed() {
		return n.Val
	}
	var out []byte
	for _, c := range n.Children {
		out = append(out, c.Encode()...)
	}
	return append(out, n.Trailing...)
}

// Encode re-encodes the node with minimal definite lengths.
func (n *Node) Encode() []byte {
	c := n.Content()
	out := append([]byte{n.Tag}, encLen(len(c))...)
	return append(out, c...)
}

// Clone deep-copies a node.
func (n *Node) Clone() *Node {
	// a clone is meant to be edited: it carries no Raw and always re-encodes
	m := &Node{Tag: n.Tag, Val: append([]byte{}, n.Val...), Off: n.Off, HdrLen: n.HdrLen, Len: n.Len, Opaque: n.Opaque, Trailing: append([]byte{}, n.Trailing...)}
	for _, c := range n.Children {
		m.Children = append(m.Children, c.Clone())
	}
	return m
}

// Prim builds a primitive node.
func Prim(tag byte, val []byte) *Node { return &Node{Tag: tag, Val: append([]byte{}, val...)} }

// Cons builds a constructed node.
func Cons(tag byte, children ...*Node) *Node { return &Node{Tag: tag | 0x20, Children: children} }

// OID content octets for an arc list.
func OID(arcs ...uint64) []byte {
	out := []byte{}
	put := func(v uint64) {
		var tmp []byte
		tmp = append(tmp, byte(v&0x7f))
		v >>= 7
		for v > 0 {
			tmp = append(tmp, byte(v&0x7f)|0x80)
			v >>= 7
		}
		for i := len(tmp) - 1; i >= 0; i-- {
			out = append(out, tmp[i])
		}
	}
	put(arcs[0]*40 + arcs[1])
	for _, a := range arcs[2:] {
		put(a)
	}
	return out
}
