// Package refpe is a from-the-specification reader of PE/COFF images and an
// implementation of the Authenticode PE image hash ("Windows Authenticode
// Portable Executable Signature Format", section "Calculating the PE Image
// Hash", steps 1-15). It works on raw bytes and shares no code with go-uefi or
// debug/pe.
package refpe

import (
	"crypto/sha256"
	"encoding/binary"
	"errors"
	"fmt"
	"sort"
)

type Section struct {
	HeaderOff int // offset of the 40-byte section header
	RawPtr    uint32
	RawSize   uint32
}

type Image struct {
	Size          int
	Lfanew        int
	PE32Plus      bool
	NumSections   int
	OptOff        int
	OptSize       int
	ChecksumOff   int
	CertDirOff    int // offset of data directory entry 4 (8 bytes)
	SizeOfHeaders int
	NumRva        uint32
	CertOff       uint32
	CertSize      uint32
	SecTableOff   int
	Sections      []Section
	// Tolerated is non-empty for an image that is not well-formed in the strict sense but for which
	// the specification's hashing steps are still defined literally (a parser may refuse it; if it
	// accepts, the digest and the set of covered bytes are the literal ones).
	Tolerated string
}

var ErrIllFormed = errors.New("ill-formed PE image")

func ill(format string, a ...any) error {
	return fmt.Errorf("%w: %s", ErrIllFormed, fmt.Sprintf(format, a...))
}

// Parse reads the header fields the hash depends on and applies the
// well-formedness predicate documented in DESIGN.md: headers inside the file
// and inside SizeOfHeaders, NumberOfRvaAndSizes >= 5, every section's raw data
// inside the file and not before SizeOfHeaders, sections not overlapping, an
// attribute certificate table (if any) 8-aligned, at the end of the file, after
// all section data, with the size the directory entry declares.
func Parse(b []byte) (*Image, error) {
	im := &Image{Size: len(b)}
	if len(b) < 0x40 || b[0] != 'M' || b[1] != 'Z' {
		return nil, ill("no DOS header")
	}
	im.Lfanew = int(binary.LittleEndian.Uint32(b[0x3c:]))
	if im.Lfanew < 0x40 || im.Lfanew+24 > len(b) {
		return nil, ill("e_lfanew %#x", im.Lfanew)
	}
	if string(b[im.Lfanew:im.Lfanew+4]) != "PE\x00\x00" {
		return nil, ill("no PE signature")
	}
	coff := im.Lfanew + 4
	im.NumSections = int(binary.LittleEndian.Uint16(b[coff+2:]))
	im.OptSize = int(binary.LittleEndian.Uint16(b[coff+16:]))
	im.OptOff = coff + 20
	if im.OptOff+im.OptSize > len(b) || im.OptSize < 2 {
		return nil, ill("optional header outside file")
	}
	magic := binary.LittleEndian.Uint16(b[im.OptOff:])
	var ddOff int
	switch magic {
	case 0x10b:
		ddOff = im.OptOff + 96
	case 0x20b:
		im.PE32Plus = true
		ddOff = im.OptOff + 112
	default:
		return nil, ill("optional header magic %#x", magic)
	}
	if im.OptSize < (ddOff-im.OptOff)+5*8 {
		return nil, ill("optional header too small for the certificate table entry")
	}
	im.ChecksumOff = im.OptOff + 64
	im.SizeOfHeaders = int(binary.LittleEndian.Uint32(b[im.OptOff+60:]))
	im.NumRva = binary.LittleEndian.Uint32(b[ddOff-4:])
	if im.NumRva < 5 || int(im.NumRva)*8 != im.OptSize-(ddOff-im.OptOff) {
		return nil, ill("NumberOfRvaAndSizes %d inconsistent with SizeOfOptionalHeader %d", im.NumRva, im.OptSize)
	}
	im.CertDirOff = ddOff + 4*8
	im.CertOff = binary.LittleEndian.Uint32(b[im.CertDirOff:])
	im.CertSize = binary.LittleEndian.Uint32(b[im.CertDirOff+4:])
	im.SecTableOff = im.OptOff + im.OptSize
	end := im.SecTableOff + 40*im.NumSections
	if im.SizeOfHeaders < end || im.SizeOfHeaders > len(b) {
		return nil, ill("SizeOfHeaders %d does not cover the headers (%d) or exceeds the file (%d)", im.SizeOfHeaders, end, len(b))
	}
	dataEnd := im.SizeOfHeaders
	for i := 0; i < im.NumSections; i++ {
		h := im.SecTableOff + 40*i
		s := Section{HeaderOff: h, RawSize: binary.LittleEndian.Uint32(b[h+16:]), RawPtr: binary.LittleEndian.Uint32(b[h+20:])}
		im.Sections = append(im.Sections, s)
		if s.RawSize == 0 {
			continue
		}
		if int64(s.RawPtr) < int64(end) || int64(s.RawPtr)+int64(s.RawSize) > int64(len(b)) {
			return nil, ill("section %d raw data [%d,+%d) outside [end of headers,file size)", i, s.RawPtr, s.RawSize)
		}
		if int64(s.RawPtr) < int64(im.SizeOfHeaders) {
			// SizeOfHeaders reaches into the section: steps 7 and 11 then both hash the overlap, and step
			// 14 starts SizeOfHeaders + sum(SizeOfRawData) into the file
			im.Tolerated = "a section begins inside SizeOfHeaders"
		}
		if e := int(s.RawPtr) + int(s.RawSize); e > dataEnd {
			dataEnd = e
		}
	}
	sorted := im.SortedSections()
	for i := 1; i < len(sorted); i++ {
		if int64(sorted[i-1].RawPtr)+int64(sorted[i-1].RawSize) > int64(sorted[i].RawPtr) {
			return nil, ill("sections overlap")
		}
	}
	if im.CertSize == 0 && im.CertOff != 0 {
		// a left-over address with size 0: there is no table (the size says so); a parser may refuse it
		im.Tolerated = "certificate table address without a size"
		im.CertOff = 0
	}
	if im.CertSize != 0 || im.CertOff != 0 {
		if im.CertSize == 0 || im.CertOff == 0 {
			return nil, ill("half-set certificate table entry")
		}
		if int64(im.CertOff)+int64(im.CertSize) != int64(len(b)) {
			return nil, ill("certificate table [%d,+%d) does not end at end of file %d", im.CertOff, im.CertSize, len(b))
		}
		if int(im.CertOff) < dataEnd {
			return nil, ill("certificate table overlaps section data")
		}
		if im.CertOff%8 != 0 {
			return nil, ill("certificate table not 8-aligned")
		}
		// walk the entries: each dwLength >= 8, rounded up to 8, exactly filling the table
		t := b[im.CertOff:]
		for len(t) > 0 {
			if len(t) < 8 {
				return nil, ill("certificate table entry header truncated")
			}
			l := int(binary.LittleEndian.Uint32(t))
			if l < 8 || (l+7)&^7 > len(t) {
				return nil, ill("certificate entry length %d", l)
			}
			t = t[(l+7)&^7:]
		}
	}
	return im, nil
}

// SortedSections returns the sections with non-zero raw size in ascending
// PointerToRawData order (steps 9-10).
func (im *Image) SortedSections() []Section {
	var s []Section
	for _, x := range im.Sections {
		if x.RawSize != 0 {
			s = append(s, x)
		}
	}
	sort.SliceStable(s, func(i, j int) bool { return s[i].RawPtr < s[j].RawPtr })
	return s
}

// Range is a half-open byte range of the file.
type Range struct{ From, To int }

// HashedRanges lists, in hashing order, the file ranges the specification
// feeds to the digest (steps 3-14).
func (im *Image) HashedRanges() []Range {
	r := []Range{{0, im.ChecksumOff}, {im.ChecksumOff + 4, im.CertDirOff}, {im.CertDirOff + 8, im.SizeOfHeaders}}
	sum := im.SizeOfHeaders
	for _, s := range im.SortedSections() {
		r = append(r, Range{int(s.RawPtr), int(s.RawPtr) + int(s.RawSize)})
		sum += int(s.RawSize)
	}
	// step 14: extra data begins at SUM_OF_BYTES_HASHED, length FILE_SIZE - (cert table size + SUM_OF_BYTES_HASHED)
	if extra := im.Size - int(im.CertSize) - sum; extra > 0 {
		r = append(r, Range{sum, sum + extra})
	}
	return r
}

// Digest is the SHA-256 Authenticode hash of b zero-padded to an 8-byte
// boundary (an image without certificate table whose size is not a multiple of
// 8 is padded when it is signed; the digest must be that of the padded file).
func Digest(b []byte) ([]byte, *Image, error) {
	im, err := Parse(b)
	if err != nil {
		return nil, nil, err
	}
	h := sha256.New()
	for _, r := range im.HashedRanges() {
		h.Write(b[r.From:r.To])
	}
	if pad := (8 - im.Size%8) % 8; pad != 0 {
		h.Write(make([]byte, pad))
	}
	return h.Sum(nil), im, nil
}

// DigestUnpadded is the specification digest of the file exactly as it is
// (used on signed output files, which are already padded).
func DigestUnpadded(b []byte) ([]byte, *Image, error) {
	im, err := Parse(b)
	if err != nil {
		return nil, nil, err
	}
	h := sha256.New()
	for _, r := range im.HashedRanges() {
		h.Write(b[r.From:r.To])
	}
	return h.Sum(nil), im, nil
}

// WinCert is one entry of the attribute certificate table.
type WinCert struct {
	Off      int
	Length   uint32
	Revision uint16
	Type     uint16
	Body     []byte
}

// CertTable walks the attribute certificate table of a well-formed image.
func CertTable(b []byte, im *Image) []WinCert {
	var out []WinCert
	if im.CertSize == 0 {
		return nil
	}
	off := int(im.CertOff)
	for off < len(b) {
		l := int(binary.LittleEndian.Uint32(b[off:]))
		out = append(out, WinCert{Off: off, Length: uint32(l), Revision: binary.LittleEndian.Uint16(b[off+4:]), Type: binary.LittleEndian.Uint16(b[off+6:]), Body: b[off+8 : off+l]})
		off += (l + 7) &^ 7
	}
	return out
}

// Attach produces the signed file the specification describes for an image
// without certificate table: the image zero-padded to 8 bytes, followed by one
// WIN_CERTIFICATE (revision 0x0200, type 0x0002) per blob, each padded to 8
// bytes, with the directory entry spanning the table exactly to end of file.
func Attach(img []byte, blobs ...[]byte) ([]byte, error) {
	im, err := Parse(img)
	if err != nil {
		return nil, err
	}
	if im.CertSize != 0 {
		return nil, ill("image already has a certificate table")
	}
	out := append([]byte{}, img...)
	for len(out)%8 != 0 {
		out = append(out, 0)
	}
	off := len(out)
	for _, b := range blobs {
		l := 8 + len(b)
		out = binary.LittleEndian.AppendUint32(out, uint32(l))
		out = binary.LittleEndian.AppendUint16(out, 0x0200)
		out = binary.LittleEndian.AppendUint16(out, 0x0002)
		out = append(out, b...)
		for len(out)%8 != 0 {
			out = append(out, 0)
		}
	}
	binary.LittleEndian.PutUint32(out[im.CertDirOff:], uint32(off))
	binary.LittleEndian.PutUint32(out[im.CertDirOff+4:], uint32(len(out)-off))
	return out, nil
}

// Strip returns the image without its certificate table and with the
// directory entry zeroed (the padding added before the table is kept).
func Strip(img []byte) ([]byte, error) {
	im, err := Parse(img)
	if err != nil {
		return nil, err
	}
	if im.CertSize == 0 {
		out := append([]byte{}, img...)
		for i := 0; i < 8; i++ {
			out[im.CertDirOff+i] = 0 // a left-over address without a size is no part of the original either
		}
		return out, nil
	}
	out := append([]byte{}, img[:im.CertOff]...)
	for i := 0; i < 8; i++ {
		out[im.CertDirOff+i] = 0
	}
	return out, nil
}
