// Package refesl is a reference codec for EFI_SIGNATURE_LIST streams written
// from UEFI 2.8 section 32.4.1. It shares no code with go-uefi.
//
//	typedef struct { EFI_GUID SignatureType; UINT32 SignatureListSize;
//	                 UINT32 SignatureHeaderSize; UINT32 SignatureSize;
//	                 UINT8 SignatureHeader[SignatureHeaderSize];
//	                 EFI_SIGNATURE_DATA Signatures[][SignatureSize]; } EFI_SIGNATURE_LIST;
//	typedef struct { EFI_GUID SignatureOwner; UINT8 SignatureData[]; } EFI_SIGNATURE_DATA;
package refesl

import (
	"encoding/binary"
	"errors"
	"fmt"
)

type GUID [16]byte // wire order: Data1 LE, Data2 LE, Data3 LE, Data4

func MkGUID(d1 uint32, d2, d3 uint16, d4 [8]byte) GUID {
	var g GUID
	binary.LittleEndian.PutUint32(g[0:], d1)
	binary.LittleEndian.PutUint16(g[4:], d2)
	binary.LittleEndian.PutUint16(g[6:], d3)
	copy(g[8:], d4[:])
	return g
}

var (
	X509   = MkGUID(0xa5c059a1, 0x94e4, 0x4aa7, [8]byte{0x87, 0xb5, 0xab, 0x15, 0x5c, 0x2b, 0xf0, 0x72})
	SHA256 = MkGUID(0xc1c41626, 0x504c, 0x4092, [8]byte{0xac, 0xa9, 0x41, 0xf9, 0x36, 0x93, 0x43, 0x28})
	EXTMGT = MkGUID(0x452e8ced, 0xdfff, 0x4b8c, [8]byte{0xae, 0x01, 0x51, 0x18, 0x86, 0x2e, 0x68, 0x2c})
	SHA1   = MkGUID(0x826ca512, 0xcf10, 0x4ac9, [8]byte{0xb1, 0x87, 0xbe, 0x01, 0x49, 0x66, 0x31, 0xbd})
)

type Entry struct {
	Owner GUID
	Data  []byte
}

type List struct {
	Type       GUID
	ListSize   uint32
	HeaderSize uint32
	SigSize    uint32
	Header     []byte
	Entries    []Entry
}

var ErrMalformed = errors.New("malformed signature list stream")

// Decode accepts exactly the well-formed streams: the whole input is a
// concatenation of lists with ListSize = 28 + HeaderSize + n*SigSize,
// SigSize >= 16 and, for SHA-256 lists, SigSize == 48. ambiguous is set when the
// stream contains a zero-entry list whose SigSize is below 16 (the size
// equation holds, the "at least 16" clause does not; the library's own
// NewSignatureList emits such lists) -- callers do not judge those.
func Decode(b []byte) (lists []List, ambiguous bool, err error) {
	for len(b) > 0 {
		if len(b) < 28 {
			return nil, false, fmt.Errorf("%w: %d trailing bytes, less than a list header", ErrMalformed, len(b))
		}
		var l List
		copy(l.Type[:], b[:16])
		l.ListSize = binary.LittleEndian.Uint32(b[16:])
		l.HeaderSize = binary.LittleEndian.Uint32(b[20:])
		l.SigSize = binary.LittleEndian.Uint32(b[24:])
		if uint64(l.ListSize) > uint64(len(b)) {
			return nil, false, fmt.Errorf("%w: ListSize %d exceeds remaining %d", ErrMalformed, l.ListSize, len(b))
		}
		if uint64(l.ListSize) < 28+uint64(l.HeaderSize) {
			return nil, false, fmt.Errorf("%w: ListSize %d below 28+HeaderSize %d", ErrMalformed, l.ListSize, l.HeaderSize)
		}
		body := b[28:l.ListSize]
		l.Header = append([]byte{}, body[:l.HeaderSize]...)
		body = body[l.HeaderSize:]
		if len(body) > 0 {
			if l.SigSize < 16 {
				return nil, false, fmt.Errorf("%w: SignatureSize %d below 16", ErrMalformed, l.SigSize)
			}
			if uint64(len(body))%uint64(l.SigSize) != 0 {
				return nil, false, fmt.Errorf("%w: %d bytes of signatures not a multiple of %d", ErrMalformed, len(body), l.SigSize)
			}
		} else if l.SigSize < 16 {
			ambiguous = true
		}
		if l.Type == SHA256 && l.SigSize != 48 && !(len(body) == 0 && l.SigSize < 16) {
			return nil, false, fmt.Errorf("%w: SHA-256 list with SignatureSize %d", ErrMalformed, l.SigSize)
		}
		for len(body) > 0 {
			var e Entry
			copy(e.Owner[:], body[:16])
			e.Data = append([]byte{}, body[16:l.SigSize]...)
			l.Entries = append(l.Entries, e)
			body = body[l.SigSize:]
		}
		lists = append(lists, l)
		b = b[l.ListSize:]
	}
	return lists, ambiguous, nil
}

// Encode writes the lists with the size fields they carry.
func Encode(ls []List) []byte {
	var out []byte
	for _, l := range ls {
		out = append(out, l.Type[:]...)
		out = binary.LittleEndian.AppendUint32(out, l.ListSize)
		out = binary.LittleEndian.AppendUint32(out, l.HeaderSize)
		out = binary.LittleEndian.AppendUint32(out, l.SigSize)
		out = append(out, l.Header...)
		for _, e := range l.Entries {
			out = append(out, e.Owner[:]...)
			out = append(out, e.Data...)
		}
	}
	return out
}

// Mk builds a well-formed list from entries of equal data length.
func Mk(t GUID, sigSize uint32, es ...Entry) List {
	return List{Type: t, ListSize: 28 + uint32(len(es))*sigSize, SigSize: sigSize, Header: []byte{}, Entries: es}
}

// WellFormed checks the size equations of a decoded/encoded list set.
func WellFormed(ls []List) error {
	for i, l := range ls {
		if l.ListSize != 28+l.HeaderSize+uint32(len(l.Entries))*l.SigSize {
			return fmt.Errorf("list %d: ListSize %d != 28+%d+%d*%d", i, l.ListSize, l.HeaderSize, len(l.Entries), l.SigSize)
		}
		if uint32(len(l.Header)) != l.HeaderSize {
			return fmt.Errorf("list %d: header length %d != HeaderSize %d", i, len(l.Header), l.HeaderSize)
		}
		for j, e := range l.Entries {
			if uint32(len(e.Data))+16 != l.SigSize {
				return fmt.Errorf("list %d entry %d: data length %d + 16 != SignatureSize %d", i, j, len(e.Data), l.SigSize)
			}
		}
	}
	return nil
}
