// Package refauth is a reference reader/writer for WIN_CERTIFICATE,
// WIN_CERTIFICATE_UEFI_GUID and EFI_VARIABLE_AUTHENTICATION_2 written from
// UEFI 2.8 sections 8.2.2 and 32.2.4. It shares no code with go-uefi.
package refauth

import (
	"encoding/binary"
	"errors"
)

// EFI_TIME, 16 bytes.
type Time struct {
	Year                             uint16
	Month, Day, Hour, Minute, Second uint8
	Pad1                             uint8
	Nanosecond                       uint32
	TimeZone                         int16
	Daylight                         uint8
	Pad2                             uint8
}

func (t Time) Bytes() []byte {
	b := make([]byte, 16)
	binary.LittleEndian.PutUint16(b[0:], t.Year)
	b[2], b[3], b[4], b[5], b[6], b[7] = t.Month, t.Day, t.Hour, t.Minute, t.Second, t.Pad1
	binary.LittleEndian.PutUint32(b[8:], t.Nanosecond)
	binary.LittleEndian.PutUint16(b[12:], uint16(t.TimeZone))
	b[14], b[15] = t.Daylight, t.Pad2
	return b
}

func ParseTime(b []byte) Time {
	return Time{Year: binary.LittleEndian.Uint16(b[0:]), Month: b[2], Day: b[3], Hour: b[4], Minute: b[5], Second: b[6], Pad1: b[7],
		Nanosecond: binary.LittleEndian.Uint32(b[8:]), TimeZone: int16(binary.LittleEndian.Uint16(b[12:])), Daylight: b[14], Pad2: b[15]}
}

// WinCert is WIN_CERTIFICATE: dwLength includes the 8 header bytes.
type WinCert struct {
	Length   uint32
	Revision uint16
	Type     uint16
	Body     []byte
}

var ErrShort = errors.New("input shorter than the declared length")

// ParseWinCert decodes one WIN_CERTIFICATE at the start of b and returns the
// number of bytes it occupies.
func ParseWinCert(b []byte) (WinCert, int, error) {
	if len(b) < 8 {
		return WinCert{}, 0, ErrShort
	}
	w := WinCert{Length: binary.LittleEndian.Uint32(b), Revision: binary.LittleEndian.Uint16(b[4:]), Type: binary.LittleEndian.Uint16(b[6:])}
	if w.Length < 8 || uint64(w.Length) > uint64(len(b)) {
		return WinCert{}, 0, ErrShort
	}
	w.Body = append([]byte{}, b[8:w.Length]...)
	return w, int(w.Length), nil
}

func (w WinCert) Bytes() []byte {
	b := make([]byte, 8, 8+len(w.Body))
	binary.LittleEndian.PutUint32(b, w.Length)
	binary.LittleEndian.PutUint16(b[4:], w.Revision)
	binary.LittleEndian.PutUint16(b[6:], w.Type)
	return append(b, w.Body...)
}

// Auth2 is EFI_VARIABLE_AUTHENTICATION_2.
type Auth2 struct {
	Time     Time
	Length   uint32 // dwLength of the WIN_CERTIFICATE_UEFI_GUID: 24 + len(CertData)
	Revision uint16
	Type     uint16
	CertType [16]byte // wire order
	CertData []byte
}

// ParseAuth2 decodes a descriptor at the start of b; consumed = 16 + dwLength.
func ParseAuth2(b []byte) (Auth2, int, error) {
	if len(b) < 40 {
		return Auth2{}, 0, ErrShort
	}
	a := Auth2{Time: ParseTime(b)}
	w, n, err := ParseWinCert(b[16:])
	if err != nil {
		return Auth2{}, 0, err
	}
	if w.Length < 24 {
		return Auth2{}, 0, ErrShort
	}
	a.Length, a.Revision, a.Type = w.Length, w.Revision, w.Type
	copy(a.CertType[:], w.Body[:16])
	a.CertData = w.Body[16:]
	return a, 16 + n, nil
}

func (a Auth2) Bytes() []byte {
	b := a.Time.Bytes()
	b = binary.LittleEndian.AppendUint32(b, a.Length)
	b = binary.LittleEndian.AppendUint16(b, a.Revision)
	b = binary.LittleEndian.AppendUint16(b, a.Type)
	b = append(b, a.CertType[:]...)
	return append(b, a.CertData...)
}
