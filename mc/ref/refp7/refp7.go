// Package refp7 is a reference reader and verifier for the PKCS#7 / CMS
// SignedData subset, written from RFC 2315 / RFC 5652 on top of the der TLV
// tree, crypto/rsa and crypto/sha256. It shares no code with go-uefi.
package refp7

import (
	"bytes"
	"crypto"
	"crypto/rsa"
	"crypto/sha256"
	"crypto/x509"
	"errors"
	"fmt"
	"math/big"

	"verif/ref/der"
)

var (
	OIDSignedData    = der.OID(1, 2, 840, 113549, 1, 7, 2)
	OIDData          = der.OID(1, 2, 840, 113549, 1, 7, 1)
	OIDSHA256        = der.OID(2, 16, 840, 1, 101, 3, 4, 2, 1)
	OIDRSA           = der.OID(1, 2, 840, 113549, 1, 1, 1)
	OIDSHA256RSA     = der.OID(1, 2, 840, 113549, 1, 1, 11)
	OIDContentType   = der.OID(1, 2, 840, 113549, 1, 9, 3)
	OIDMessageDigest = der.OID(1, 2, 840, 113549, 1, 9, 4)
	OIDSigningTime   = der.OID(1, 2, 840, 113549, 1, 9, 5)
	OIDSpcIndirect   = der.OID(1, 3, 6, 1, 4, 1, 311, 2, 1, 4)
)

type Attr struct {
	OID    []byte
	Values []*der.Node
	Node   *der.Node
}

type Signer struct {
	Node      *der.Node
	IssuerRaw []byte
	Serial    *big.Int
	DigestAlg []byte
	AttrsNode *der.Node // the [0] IMPLICIT node, nil if absent
	Attrs     []Attr
	SigAlg    []byte
	Sig       []byte
}

type SignedData struct {
	Root         *der.Node // outer node as given (ContentInfo or bare SignedData)
	SD           *der.Node // the SignedData SEQUENCE
	Wrapped      bool      // had the outer ContentInfo
	DigestAlgs   [][]byte
	EContentType []byte
	EContent     *der.Node // the single TLV inside [0] EXPLICIT, nil if detached
	CertsNode    *der.Node
	Certs        [][]byte
	Signers      []Signer
}

var ErrStructure = errors.New("refp7: not a SignedData")

func bad(format string, a ...any) error {
	return fmt.Errorf("%w: %s", ErrStructure, fmt.Sprintf(format, a...))
}

// Parse locates the fields of a SignedData (with or without the outer ContentInfo).
func Parse(b []byte) (*SignedData, error) {
	root, err := der.Parse(b)
	if err != nil {
		return nil, err
	}
	return FromTree(root)
}

// FromTree locates the fields. It is deliberately lenient about everything the
// acceptance condition does not mention (outer content-type value, algorithm
// parameters, trailing elements): leniency here can only make the reference
// accept more, and the oracle is one-directional (library true => reference
// valid). The three conditions themselves are checked strictly in Valid.
func FromTree(root *der.Node) (*SignedData, error) {
	s := &SignedData{Root: root}
	sd := root
	if root.Tag != 0x30 || len(root.Children) == 0 {
		return nil, bad("outer element is not a SEQUENCE")
	}
	if root.Children[0].Tag == 0x06 {
		if len(root.Children) < 2 || root.Children[1].Tag != 0xa0 || len(root.Children[1].Children) < 1 {
			return nil, bad("ContentInfo content")
		}
		sd = root.Children[1].Children[0]
		s.Wrapped = true
	}
	s.SD = sd
	if sd.Tag != 0x30 || len(sd.Children) < 4 {
		return nil, bad("SignedData shape")
	}
	c := sd.Children
	if c[0].Tag != 0x02 || c[1].Tag != 0x31 || c[2].Tag != 0x30 {
		return nil, bad("SignedData fields")
	}
	for _, a := range c[1].Children {
		if a.Tag == 0x30 && len(a.Children) > 0 && a.Children[0].Tag == 0x06 {
			s.DigestAlgs = append(s.DigestAlgs, a.Children[0].Val)
		}
	}
	ci := c[2]
	if len(ci.Children) == 0 || ci.Children[0].Tag != 0x06 {
		return nil, bad("encapsulated content info")
	}
	s.EContentType = ci.Children[0].Val
	if len(ci.Children) >= 2 && ci.Children[1].Tag == 0xa0 {
		if len(ci.Children[1].Children) != 1 {
			return nil, bad("encapsulated content is not one element")
		}
		s.EContent = ci.Children[1].Children[0]
	}
	i := 3
	if i < len(c) && c[i].Tag == 0xa0 {
		s.CertsNode = c[i]
		for _, x := range c[i].Children {
			s.Certs = append(s.Certs, x.Bytes())
		}
		i++
	}
	if i < len(c) && c[i].Tag == 0xa1 {
		i++
	}
	if i >= len(c) || c[i].Tag != 0x31 {
		return nil, bad("signerInfos")
	}
	for _, si := range c[i].Children {
		sg, err := parseSigner(si)
		if err != nil {
			return nil, err
		}
		s.Signers = append(s.Signers, sg)
	}
	return s, nil
}

func parseSigner(si *der.Node) (Signer, error) {
	var g Signer
	g.Node = si
	c := si.Children
	if si.Tag != 0x30 || len(c) < 5 || c[0].Tag != 0x02 || c[1].Tag != 0x30 || c[2].Tag != 0x30 {
		return g, bad("SignerInfo shape")
	}
	ias := c[1]
	if len(ias.Children) < 2 || ias.Children[0].Tag != 0x30 || ias.Children[1].Tag != 0x02 {
		return g, bad("issuerAndSerialNumber")
	}
	g.IssuerRaw = ias.Children[0].Bytes()
	g.Serial = new(big.Int).SetBytes(ias.Children[1].Val)
	if len(ias.Children[1].Val) > 0 && ias.Children[1].Val[0]&0x80 != 0 {
		// two's complement negative
		g.Serial.Sub(g.Serial, new(big.Int).Lsh(big.NewInt(1), uint(8*len(ias.Children[1].Val))))
	}
	if len(c[2].Children) > 0 && c[2].Children[0].Tag == 0x06 {
		g.DigestAlg = c[2].Children[0].Val
	}
	i := 3
	if c[i].Tag == 0xa0 {
		g.AttrsNode = c[i]
		for _, a := range c[i].Children {
			if a.Tag != 0x30 || len(a.Children) < 2 || a.Children[0].Tag != 0x06 || a.Children[1].Tag != 0x31 {
				// kept as an opaque attribute: it is part of the signed bytes but carries no value we read
				g.Attrs = append(g.Attrs, Attr{Node: a})
				continue
			}
			g.Attrs = append(g.Attrs, Attr{OID: a.Children[0].Val, Values: a.Children[1].Children, Node: a})
		}
		i++
	}
	if i+1 >= len(c) || c[i].Tag != 0x30 || c[i+1].Tag != 0x04 {
		return g, bad("signature algorithm / encryptedDigest")
	}
	if len(c[i].Children) > 0 && c[i].Children[0].Tag == 0x06 {
		g.SigAlg = c[i].Children[0].Val
	}
	g.Sig = c[i+1].Val
	return g, nil
}

// SignedAttrsDER returns the signed attributes exactly as they appear in the
// blob, re-tagged as a SET (the bytes the signature is computed over).
func (g *Signer) SignedAttrsDER() []byte {
	if g.AttrsNode == nil {
		return nil
	}
	b := append([]byte{}, g.AttrsNode.Bytes()...)
	b[0] = 0x31
	return b
}

func (g *Signer) attr(oid []byte) []*der.Node {
	var found [][]*der.Node
	for _, a := range g.Attrs {
		if bytes.Equal(a.OID, oid) {
			found = append(found, a.Values)
		}
	}
	if len(found) != 1 {
		return nil
	}
	return found[0]
}

// MessageDigest returns the single value of the single messageDigest attribute.
func (g *Signer) MessageDigest() []byte {
	v := g.attr(OIDMessageDigest)
	if len(v) != 1 || v[0].Tag != 0x04 {
		return nil
	}
	return v[0].Val
}

func (g *Signer) ContentType() []byte {
	v := g.attr(OIDContentType)
	if len(v) != 1 || v[0].Tag != 0x06 {
		return nil
	}
	return v[0].Val
}

// Names reports whether the signer entry names cert by issuer and serial.
func (g *Signer) Names(cert *x509.Certificate) bool {
	return bytes.Equal(g.IssuerRaw, cert.RawIssuer) && g.Serial.Cmp(cert.SerialNumber) == 0
}

// Verdict explains a verification result.
type Verdict struct {
	OK     bool
	Reason string
}

// Valid is the statement's acceptance condition: some signer entry names
// cert's issuer and serial, carries an RSA PKCS#1 v1.5 SHA-256 signature valid
// under cert's key over the signed attributes exactly as they appear, and, if
// content is available (encapsulated, or supplied as detached), the
// messageDigest attribute equals SHA-256 of the content octets.
func (s *SignedData) Valid(cert *x509.Certificate, detached []byte) Verdict {
	pub, ok := cert.PublicKey.(*rsa.PublicKey)
	if !ok {
		return Verdict{false, "certificate key is not RSA"}
	}
	reason := "no signer entry names the certificate"
	for i := range s.Signers {
		g := &s.Signers[i]
		if !g.Names(cert) {
			continue
		}
		if g.AttrsNode == nil {
			reason = "signer has no signed attributes"
			continue
		}
		h := sha256.Sum256(g.SignedAttrsDER())
		if err := rsa.VerifyPKCS1v15(pub, crypto.SHA256, h[:], g.Sig); err != nil {
			reason = "RSA signature over the signed attributes as they appear does not verify"
			continue
		}
		var content []byte
		have := false
		if s.EContent != nil {
			content, have = s.EContent.RawContent(), true
		} else if detached != nil {
			content, have = detached, true
		}
		if have {
			md := g.MessageDigest()
			d := sha256.Sum256(content)
			if md == nil || !bytes.Equal(md, d[:]) {
				reason = "messageDigest attribute differs from SHA-256 of the content"
				continue
			}
		}
		return Verdict{true, "valid"}
	}
	return Verdict{false, reason}
}

// ParseAndValid combines Parse and Valid; unparsable blobs are invalid.
func ParseAndValid(blob []byte, cert *x509.Certificate, detached []byte) Verdict {
	s, err := Parse(blob)
	if err != nil {
		return Verdict{false, "unparsable: " + err.Error()}
	}
	return s.Valid(cert, detached)
}
