// ovgen generates a `go build -overlay` description for building go-uefi with
// the verification seams: every non-test .go file of the library packages in
// the *current working tree* of the repository is parsed, a fixed set of
// import paths is redirected to the shim packages of the verif module and the
// file is printed otherwise unchanged. Nothing is stored: the overlay is
// regenerated from /repo on every check run, so any edit of the repository is
// carried into the instrumented build.
//
// Extra files (white-box exports) found under -extra/<pkgdir>/*.go.in are added
// to the corresponding package directory as virtual files.
package main

import (
	"encoding/json"
	"flag"
	"fmt"
	"go/ast"
	"go/build"
	"go/format"
	"go/parser"
	"go/token"
	"os"
	"path/filepath"
	"sort"
	"strconv"
	"strings"
)

func main() {
	repo := flag.String("repo", "/repo", "repository root")
	out := flag.String("out", "", "output directory (rewritten files + overlay.json)")
	extra := flag.String("extra", "", "directory with extra files: <pkgdir>/<name>.go.in")
	mode := flag.String("mode", "base", "base: log,time; sched: log,time,io,bytes,sync")
	tests := flag.Bool("tests", false, "also rewrite _test.go files (used to validate the shim with the repository's own tests)")
	flag.Parse()
	if *out == "" {
		fmt.Fprintln(os.Stderr, "ovgen: -out required")
		os.Exit(2)
	}
	redirect := map[string]string{
		"log":  "verif/shim/vlog",
		"time": "verif/shim/vtime",
	}
	if *mode == "sched" {
		redirect["io"] = "verif/shim/vio"
		redirect["bytes"] = "verif/shim/vbytes"
		redirect["sync"] = "verif/shim/vsync"
	}
	replace := map[string]string{}
	pkgs := map[string]*pkgInfo{}
	n := 0
	err := filepath.Walk(*repo, func(p string, info os.FileInfo, err error) error {
		if err != nil {
			return err
		}
		rel, _ := filepath.Rel(*repo, p)
		if info.IsDir() {
			base := filepath.Base(p)
			if rel == "cmd" || rel == "tests" || base == ".git" || base == "testdata" {
				return filepath.SkipDir
			}
			return nil
		}
		if !strings.HasSuffix(p, ".go") {
			return nil
		}
		if strings.HasSuffix(p, "_test.go") && !*tests {
			return nil
		}
		fset := token.NewFileSet()
		f, err := parser.ParseFile(fset, p, nil, parser.ParseComments)
		if err != nil {
			return fmt.Errorf("parse %s: %w", p, err)
		}
		// package-level variables of files that are part of this build (for the globals registry)
		if !strings.HasSuffix(p, "_test.go") && f.Name.Name != "main" {
			if ok, _ := build.Default.MatchFile(filepath.Dir(p), filepath.Base(p)); ok {
				dir := filepath.Dir(p)
				pi := pkgs[dir]
				if pi == nil {
					pi = &pkgInfo{name: f.Name.Name}
					pkgs[dir] = pi
				}
				for _, d := range f.Decls {
					gd, ok := d.(*ast.GenDecl)
					if !ok || gd.Tok != token.VAR {
						continue
					}
					for _, sp := range gd.Specs {
						for _, id := range sp.(*ast.ValueSpec).Names {
							if id.Name != "_" {
								pi.vars = append(pi.vars, id.Name)
							}
						}
					}
				}
			}
		}
		changed := false
		for _, imp := range f.Imports {
			path, _ := strconv.Unquote(imp.Path.Value)
			to, ok := redirect[path]
			if !ok {
				continue
			}
			if imp.Name == nil {
				imp.Name = ast.NewIdent(filepath.Base(path))
			}
			imp.Path.Value = strconv.Quote(to)
			changed = true
		}
		if !changed {
			return nil
		}
		dst := filepath.Join(*out, strings.ReplaceAll(rel, string(filepath.Separator), "__"))
		w, err := os.Create(dst)
		if err != nil {
			return err
		}
		// keep line numbers of the original file for stack traces
		fmt.Fprintf(w, "//line %s:1\n", p)
		if err := format.Node(w, fset, f); err != nil {
			return err
		}
		w.Close()
		replace[p] = dst
		n++
		return nil
	})
	if err != nil {
		fmt.Fprintln(os.Stderr, "ovgen:", err)
		os.Exit(2)
	}
	if *extra != "" {
		filepath.Walk(*extra, func(p string, info os.FileInfo, err error) error {
			if err != nil || info.IsDir() || !strings.HasSuffix(p, ".go.in") {
				return nil
			}
			if strings.HasSuffix(p, ".sched.go.in") && *mode != "sched" {
				return nil
			}
			rel, _ := filepath.Rel(*extra, p)
			virt := filepath.Join(*repo, strings.TrimSuffix(rel, ".in"))
			src := p
			if *mode == "sched" {
				// extra files also go through the import redirect
				b, _ := os.ReadFile(p)
				fset := token.NewFileSet()
				f, err := parser.ParseFile(fset, p, b, parser.ParseComments)
				if err == nil {
					for _, imp := range f.Imports {
						path, _ := strconv.Unquote(imp.Path.Value)
						if to, ok := redirect[path]; ok && (path == "io" || path == "bytes" || path == "sync") {
							if imp.Name == nil {
								imp.Name = ast.NewIdent(filepath.Base(path))
							}
							imp.Path.Value = strconv.Quote(to)
						}
					}
					dst := filepath.Join(*out, "extra__"+strings.ReplaceAll(rel, string(filepath.Separator), "__")+".go")
					w, _ := os.Create(dst)
					format.Node(w, fset, f)
					w.Close()
					src = dst
				}
			}
			replace[virt] = src
			return nil
		})
	}
	// one added file per library package: registers the addresses of its package-level variables
	modPath := modulePath(*repo)
	for dir, pi := range pkgs {
		if len(pi.vars) == 0 {
			continue
		}
		rel, _ := filepath.Rel(*repo, dir)
		imp := modPath
		if rel != "." {
			imp += "/" + filepath.ToSlash(rel)
		}
		sort.Strings(pi.vars)
		var sb strings.Builder
		fmt.Fprintf(&sb, "package %s\n\nimport verifglobals \"verif/shim/globals\"\n\nfunc init() {\n\tverifglobals.Register(%q, func() []verifglobals.Var {\n\t\treturn []verifglobals.Var{\n", pi.name, imp)
		for _, v := range pi.vars {
			fmt.Fprintf(&sb, "\t\t\t{Name: %q, Ptr: &%s},\n", v, v)
		}
		sb.WriteString("\t\t}\n\t})\n}\n")
		dst := filepath.Join(*out, "globals__"+strings.ReplaceAll(rel, string(filepath.Separator), "__")+".go")
		if err := os.WriteFile(dst, []byte(sb.String()), 0o644); err != nil {
			fmt.Fprintln(os.Stderr, "ovgen:", err)
			os.Exit(2)
		}
		replace[filepath.Join(dir, "zz_verif_globals.go")] = dst
	}
	b, _ := json.MarshalIndent(map[string]any{"Replace": replace}, "", " ")
	if err := os.WriteFile(filepath.Join(*out, "overlay.json"), b, 0o644); err != nil {
		fmt.Fprintln(os.Stderr, "ovgen:", err)
		os.Exit(2)
	}
	fmt.Fprintf(os.Stderr, "ovgen: %d files rewritten, %d overlay entries\n", n, len(replace))
}

type pkgInfo struct {
	name string
	vars []string
}

// modulePath reads the module line of the repository's go.mod.
func modulePath(repo string) string {
	b, err := os.ReadFile(filepath.Join(repo, "go.mod"))
	if err != nil {
		return "github.com/foxboron/go-uefi"
	}
	for _, ln := range strings.Split(string(b), "\n") {
		if strings.HasPrefix(ln, "module ") {
			return strings.TrimSpace(strings.TrimPrefix(ln, "module "))
		}
	}
	return "github.com/foxboron/go-uefi"
}
