package main

import (
	"bytes"
	"crypto"
	"encoding/binary"
	"fmt"
	"io"
	"time"

	"github.com/foxboron/go-uefi/authenticode"
	"verif/gen/pegen"
	"verif/keys"
	"verif/ref/refpe"
)

type sparse struct {
	hdr  []byte
	size int64
}

func (s *sparse) ReadAt(p []byte, off int64) (int, error) {
	if off >= s.size {
		return 0, io.EOF
	}
	n := len(p)
	if int64(n) > s.size-off {
		n = int(s.size - off)
	}
	for i := 0; i < n; i++ {
		p[i] = 0
	}
	if off < int64(len(s.hdr)) {
		copy(p[:n], s.hdr[off:])
	}
	if n < len(p) {
		return n, io.EOF
	}
	return n, nil
}

func main() {
	small := pegen.Build(pegen.Layout{PE32Plus: true, Lfanew: 0x40, Secs: []pegen.Sec{{RawSize: 8}}})
	im, _ := refpe.Parse(small)
	h := im.Sections[0].HeaderOff
	big := uint32(1<<31 + 16)
	hdr := append([]byte{}, small[:im.SizeOfHeaders]...)
	binary.LittleEndian.PutUint32(hdr[h+8:], big)
	binary.LittleEndian.PutUint32(hdr[h+16:], big)
	s := &sparse{hdr, int64(im.SizeOfHeaders) + int64(big) + 3}
	t0 := time.Now()
	p, err := authenticode.Parse(s)
	fmt.Println("parse", err, time.Since(t0))
	if err != nil {
		return
	}
	d := p.Hash(crypto.SHA256)
	fmt.Printf("hash %x %v\n", d[:4], time.Since(t0))
	_, err = p.Sign(keys.K(1), keys.C(1))
	fmt.Println("sign", err, time.Since(t0))
	ok, err := p.Verify(keys.C(1))
	fmt.Println("verify", ok, err, time.Since(t0))
	var tail bytes.Buffer
	n, _ := io.Copy(io.Discard, io.TeeReader(p.Open(), &lastN{&tail, 4096}))
	fmt.Println("open bytes", n, time.Since(t0))
}

type lastN struct {
	b *bytes.Buffer
	n int
}

func (l *lastN) Write(p []byte) (int, error) { return len(p), nil }
