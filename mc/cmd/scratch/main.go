package main

import (
	"bytes"
	"crypto"
	"encoding/binary"
	"fmt"

	"github.com/foxboron/go-uefi/authenticode"
	"verif/gen/pegen"
	"verif/ref/refpe"
)

func main() {
	for _, l := range []pegen.Layout{
		{PE32Plus: true, Lfanew: 0x40, Secs: []pegen.Sec{{RawSize: 8}, {RawSize: 13}}, Trailing: 3},
		{PE32Plus: true, Lfanew: 0x40, NumRva: 5, Trailing: 24},
	} {
		img := pegen.Build(l)
		im, err := refpe.Parse(img)
		if err != nil {
			fmt.Println("ref parse", err)
			continue
		}
		dd4end := im.CertDirOff + 8
		soh := im.OptOff + 60
		fmt.Printf("SizeOfHeaders=%d dd4end=%d sections=%d\n", binary.LittleEndian.Uint32(img[soh:]), dd4end, len(im.Sections))
		binary.LittleEndian.PutUint32(img[soh:], uint32(dd4end))
		want, _, rerr := refpe.Digest(img)
		p, err := authenticode.Parse(bytes.NewReader(img))
		if err != nil {
			fmt.Println("lib parse error:", err, "ref:", rerr)
			continue
		}
		got := p.Hash(crypto.SHA256)
		fmt.Printf("ref err=%v equal=%v\n", rerr, bytes.Equal(got, want))
		// flip last byte
		img[len(img)-1] ^= 1
		p2, _ := authenticode.Parse(bytes.NewReader(img))
		fmt.Printf("digest changes when the last byte flips: %v\n", !bytes.Equal(p2.Hash(crypto.SHA256), got))
	}
}
