package main

import (
	"bytes"
	"crypto/x509/pkix"
	"fmt"
	"math/big"
	"strings"

	"github.com/foxboron/go-uefi/authenticode"
	"verif/gen/pegen"
	"verif/keys"
)

func main() {
	base := pegen.Build(pegen.Layout{PE32Plus: true, Lfanew: 0x40, Secs: []pegen.Sec{{RawSize: 8}, {RawSize: 13}}})
	seen := map[int]bool{}
	for l := 1; l <= 200; l++ {
		ct := keys.Cert(pkix.Name{CommonName: strings.Repeat("y", 1+l/6), Organization: []string{strings.Repeat("o", 1+l%6)}}, big.NewInt(int64(0xB000+l)), &keys.K(1).PublicKey, keys.K(1))
		p, _ := authenticode.Parse(bytes.NewReader(base))
		sig, err := p.Sign(keys.K(1), ct)
		if err != nil {
			fmt.Println(err)
			return
		}
		seen[(8+len(sig))%256] = true
		if l < 12 {
			fmt.Print(8+len(sig), " ")
		}
	}
	fmt.Println(len(seen), seen[0])
}
