package main

import (
	"fmt"

	"github.com/foxboron/go-uefi/efi"
	efifs "github.com/foxboron/go-uefi/efi/fs"
	"github.com/spf13/afero"
	"verif/gen/dpgen"
)

func main() {
	fs := afero.NewMemMapFs()
	g := "8be4df61-93ca-11d2-aa0d-00e098032b8c"
	afero.WriteFile(fs, "/sys/firmware/efi/efivars/BootOrder-"+g, []byte{7, 0, 0, 0, 0x1A, 0x00, 0x01, 0xB0}, 0644)
	lo := dpgen.LoadOption{Attributes: 1, Description: "x", Nodes: []dpgen.Node{{Kind: "PCI", Function: 1, Device: 2}}}.Bytes()
	afero.WriteFile(fs, "/sys/firmware/efi/efivars/Boot001A-"+g, append([]byte{7, 0, 0, 0}, lo...), 0644)
	afero.WriteFile(fs, "/sys/firmware/efi/efivars/BootB001-"+g, append([]byte{7, 0, 0, 0}, lo...), 0644)
	efifs.SetFS(fs)
	names := efi.GetBootOrder()
	fmt.Printf("%q\n", names)
	for _, n := range names {
		func() {
			defer func() {
				if r := recover(); r != nil {
					fmt.Println("panic:", r)
				}
			}()
			o, err := efi.GetBootEntry(n)
			fmt.Println(o != nil, err)
		}()
	}
}
