// check is the single entry point of the verification machinery:
//
//	check <ID> --tier quick|thorough      run a property check (parent mode)
//	check <ID> --replay <file>            re-execute a recorded violation
//	check --worker <ID> ...               internal: run one unit (spawned by the parent)
package main

import (
	"flag"
	"fmt"
	"os"
	"strconv"
	"strings"

	"verif/internal/hx"
	_ "verif/props"
)

func main() {
	if len(os.Args) >= 2 && os.Args[1] == "--worker" {
		fs := flag.NewFlagSet("worker", flag.ExitOnError)
		tier := fs.String("tier", "quick", "")
		unit := fs.String("unit", "", "")
		state := fs.String("state", "", "")
		out := fs.String("out", "", "")
		skip := fs.String("skip", "", "")
		only := fs.Int64("only", -1, "")
		deadline := fs.Int64("deadline", 0, "")
		seed := fs.Int64("seed", 0, "")
		id := os.Args[2]
		fs.Parse(os.Args[3:])
		var sk []uint64
		for _, s := range strings.Split(*skip, ",") {
			if s == "" {
				continue
			}
			n, _ := strconv.ParseUint(s, 10, 64)
			sk = append(sk, n)
		}
		os.Exit(hx.WorkerMain(id, *tier, *unit, *state, *out, sk, *only, *deadline, *seed))
	}
	if len(os.Args) < 2 {
		fmt.Fprintln(os.Stderr, "usage: check <ID> --tier quick|thorough | check <ID> --replay <file> | check list")
		os.Exit(2)
	}
	if os.Args[1] == "list" {
		for _, id := range hx.IDs() {
			fmt.Println(id)
		}
		return
	}
	id := os.Args[1]
	fs := flag.NewFlagSet("check", flag.ExitOnError)
	tier := fs.String("tier", "quick", "")
	replay := fs.String("replay", "", "")
	fs.Parse(os.Args[2:])
	if t := os.Getenv("VERIF_TIER"); t != "" && *tier == "" {
		*tier = t
	}
	seed := int64(0)
	if s := os.Getenv("VERIF_SEED"); s != "" {
		seed, _ = strconv.ParseInt(s, 10, 64)
	}
	if *replay != "" {
		os.Exit(hx.ReplayMain(id, *replay))
	}
	os.Exit(hx.ParentMain(id, *tier, seed))
}
