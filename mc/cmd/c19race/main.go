// c19race is the free-running pass of C19: the same read-only operations as
// the schedule explorer, called from 16 goroutines on one shared object, in a
// plain build with the race detector (no cooperative scheduler: its hand-offs
// would be happens-before edges and hide races from the detector). It prints
// "RACEPASS {json}" and relies on the detector's report on stderr.
package main

import (
	"bytes"
	"crypto"
	"crypto/sha256"
	"encoding/json"
	"fmt"
	"io"
	"sync"

	"github.com/foxboron/go-uefi/authenticode"
	"github.com/foxboron/go-uefi/efi/signature"
	"github.com/foxboron/go-uefi/efi/util"
	"github.com/foxboron/go-uefi/efivar"

	"verif/gen/pegen"
	"verif/keys"
	"verif/ref/refesl"
)

func sum(b []byte) string {
	h := sha256.Sum256(b)
	return fmt.Sprintf("len=%d sha256=%x", len(b), h[:12])
}

type op struct {
	name string
	run  func() string
}

func build() []op {
	img := pegen.Build(pegen.Layout{PE32Plus: true, Lfanew: 0x40, Secs: []pegen.Sec{{RawSize: 8}, {RawSize: 13}}, Trailing: 3})
	p0, err := authenticode.Parse(bytes.NewReader(img))
	if err != nil {
		panic(err)
	}
	p0.Sign(keys.K(1), keys.C(1))
	p0.Sign(keys.K(2), keys.C(2))
	signed := p0.Bytes()
	p, err := authenticode.Parse(bytes.NewReader(signed))
	if err != nil {
		panic(err)
	}
	// an image larger than io.Copy's 32 KiB chunk
	big, err := authenticode.Parse(bytes.NewReader(pegen.Build(pegen.Layout{PE32Plus: true, Lfanew: 0x80, Secs: []pegen.Sec{{RawSize: 8}, {RawSize: 13}}, Trailing: 70001, Big: true})))
	if err != nil {
		panic(err)
	}
	ownerA := refesl.MkGUID(0x01020304, 0x0506, 0x0708, [8]byte{9, 10, 11, 12, 13, 14, 15, 16})
	own := util.EFIGUID{Data1: 0x01020304, Data2: 0x0506, Data3: 0x0708, Data4: [8]byte{9, 10, 11, 12, 13, 14, 15, 16}}
	h1 := bytes.Repeat([]byte{7}, 32)
	dbBytes := refesl.Encode([]refesl.List{
		refesl.Mk(refesl.X509, uint32(16+len(keys.C(1).Raw)), refesl.Entry{Owner: ownerA, Data: keys.C(1).Raw}),
		refesl.Mk(refesl.SHA256, 48, refesl.Entry{Owner: ownerA, Data: h1})})
	db, err := signature.ReadSignatureDatabase(bytes.NewReader(dbBytes))
	if err != nil {
		panic(err)
	}
	desc, upd, err := signature.SignEFIVariable(efivar.Db, &db, keys.K(1), keys.C(1))
	if err != nil {
		panic(err)
	}
	ops := []op{
		{"image.Hash", func() string { return fmt.Sprintf("%x", p.Hash(crypto.SHA256)) }},
		{"image.Bytes", func() string { return sum(p.Bytes()) }},
		{"image.Open+ReadAll", func() string { b, _ := io.ReadAll(p.Open()); return sum(b) }},
		{"image.Open+Read7", func() string { b := make([]byte, 7); io.ReadFull(p.Open(), b); return fmt.Sprintf("%x", b) }},
		{"image.Signatures", func() string { s, err := p.Signatures(); return fmt.Sprint(len(s), err) }},
		{"image.Verify(c1)", func() string { ok, err := p.Verify(keys.C(1)); return fmt.Sprint(ok, err) }},
		{"image.Verify(c3)", func() string { ok, err := p.Verify(keys.C(3)); return fmt.Sprint(ok, err) }},
		{"bigimage.Hash", func() string { return fmt.Sprintf("%x", big.Hash(crypto.SHA256)) }},
		{"bigimage.Bytes", func() string { return sum(big.Bytes()) }},
		{"db.Bytes", func() string { return sum(db.Bytes()) }},
		{"db.Marshal", func() string { var b bytes.Buffer; db.Marshal(&b); return sum(b.Bytes()) }},
		{"db.SigDataExists", func() string {
			return fmt.Sprint(db.SigDataExists(signature.CERT_SHA256_GUID, &signature.SignatureData{Owner: own, Data: h1}))
		}},
		{"db.BytesExists", func() string { return fmt.Sprint(db.BytesExists(signature.CERT_X509_GUID, own, keys.C(1).Raw)) }},
		{"db.Exists", func() string {
			l := signature.NewSignatureList(signature.CERT_SHA256_GUID)
			l.AppendBytes(own, h1)
			return fmt.Sprint(db.Exists(signature.CERT_SHA256_GUID, l))
		}},
		{"update.Marshal", func() string { var b bytes.Buffer; upd.Marshal(&b); return sum(b.Bytes()) }},
		{"update.Bytes", func() string { return sum(upd.Bytes()) }},
		{"descriptor.Marshal", func() string { var b bytes.Buffer; desc.Marshal(&b); return sum(b.Bytes()) }},
		{"descriptor.Verify(c1)", func() string { ok, err := desc.Verify(keys.C(1)); return fmt.Sprint(ok, err) }},
	}
	return ops
}

func main() {
	// sequential reference on one set of objects ...
	refOps := build()
	ref := make([]string, len(refOps))
	for i, o := range refOps {
		ref[i] = o.run()
	}
	var mism []string
	for i, o := range refOps {
		if r := o.run(); r != ref[i] {
			mism = append(mism, fmt.Sprintf("%s: second sequential call returns another result", o.name))
		}
	}
	// ... concurrent calls on a fresh, never-used set (no operation has warmed anything up)
	ops := build()
	first := make([]string, len(ops))
	const G = 16
	const rounds = 6
	var wg sync.WaitGroup
	var mu sync.Mutex
	calls := 0
	start := make(chan struct{})
	for g := 0; g < G; g++ {
		wg.Add(1)
		go func(g int) {
			defer wg.Done()
			<-start
			for r := 0; r < rounds; r++ {
				for k := range ops {
					i := (k + g*3 + r) % len(ops)
					res := ops[i].run()
					mu.Lock()
					calls++
					// all calls of one operation on this object set must agree with each other
					// (the two object sets may differ in their signing timestamps, so the
					// reference of the other set is not used here)
					if first[i] == "" {
						first[i] = res
					} else if res != first[i] && len(mism) < 20 {
						mism = append(mism, fmt.Sprintf("%s returns different results when called concurrently", ops[i].name))
					}
					mu.Unlock()
				}
			}
		}(g)
	}
	close(start)
	wg.Wait()
	// and with a sequential call made afterwards
	for i, o := range ops {
		if r := o.run(); first[i] != "" && r != first[i] && len(mism) < 20 {
			mism = append(mism, fmt.Sprintf("%s returns another result after the concurrent phase", o.name))
		}
	}
	out, _ := json.Marshal(map[string]any{"goroutines": G, "calls": calls, "mismatches": mism})
	fmt.Println("RACEPASS " + string(out))
}
